(* Refine/Wf.v — the representation invariant wf (the structural half of valid()) is exactly
   "the board record represents its own mailbox reading". *)
From Coq Require Import NArith List Bool Lia Btauto.
From Coq Require Import ZifyBool ZifyN ZifyNat.
From LC Require Import Bits BitsFacts Types BitboardModel PositionModel BoardFacts Spec.Rules Refine.Abs Refine.Board.
Import ListNotations.
Local Open Scope N_scope.

Lemma nonempty_land_bit x q : q < 64 -> bb_nonempty (N.land x (bit q)) = N.testbit x q.
Proof.
  intros Hq. unfold bb_nonempty. destruct (N.testbit x q) eqn:E.
  - apply negb_true_iff, N.eqb_neq. intros H. apply (f_equal (fun v => N.testbit v q)) in H.
    rewrite N.land_spec, E, bit_spec, N.eqb_refl, N.bits_0 in H by exact Hq. discriminate.
  - apply negb_false_iff, N.eqb_eq. apply N.bits_inj. intros i. rewrite N.land_spec, bit_spec, N.bits_0 by exact Hq.
    destruct (N.eqb_spec i q) as [->|]; [rewrite E; reflexivity|apply andb_false_r].
Qed.

Definition cell_of_b (b : board) (q : N) : cell :=
  match piece_on_b b q with
  | NoPiece => None
  | pc => Some (if N.testbit (b_black b) q then Black else White, pc)
  end.
Lemma cell_of_eq p q : cell_of p q = cell_of_b (brd p) q. Proof. reflexivity. Qed.

(* the eight bits of a square *)
Record sqbits := mkSB { sw : bool; sb : bool; s1 : bool; s2 : bool; s3 : bool; s4 : bool; s5 : bool; s6 : bool }.
Definition bits_at (b : board) (q : N) : sqbits :=
  mkSB (N.testbit (b_white b) q) (N.testbit (b_black b) q) (N.testbit (b_pawn b) q) (N.testbit (b_knight b) q)
       (N.testbit (b_bishop b) q) (N.testbit (b_rook b) q) (N.testbit (b_queen b) q) (N.testbit (b_king b) q).
Definition sq_wf (t : sqbits) : bool :=
  negb (sw t && sb t) &&
  negb (s1 t && s2 t) && negb (s1 t && s3 t) && negb (s1 t && s4 t) && negb (s1 t && s5 t) && negb (s1 t && s6 t) &&
  negb (s2 t && s3 t) && negb (s2 t && s4 t) && negb (s2 t && s5 t) && negb (s2 t && s6 t) &&
  negb (s3 t && s4 t) && negb (s3 t && s5 t) && negb (s3 t && s6 t) &&
  negb (s4 t && s5 t) && negb (s4 t && s6 t) && negb (s5 t && s6 t) &&
  Bool.eqb (sw t || sb t) (s1 t || s2 t || s3 t || s4 t || s5 t || s6 t).

Lemma land_zero_bits x y q : N.land x y =? 0 = true -> N.testbit x q && N.testbit y q = false.
Proof. intros H. apply N.eqb_eq in H. rewrite <- N.land_spec, H. apply N.bits_0. Qed.

Lemma wf_board_sq b q : wf_board b = true -> sq_wf (bits_at b q) = true.
Proof.
  unfold wf_board, pairwise_disjoint, bb_empty. cbn [forallb]. intros H.
  repeat (apply andb_true_iff in H; let H' := fresh "W" in destruct H as [H H']).
  repeat match goal with H : _ && _ = true |- _ => apply andb_true_iff in H; let H' := fresh "W" in destruct H as [H H'] end.
  unfold sq_wf, bits_at. cbn [sw sb s1 s2 s3 s4 s5 s6].
  repeat match goal with H : (N.land ?x ?y =? 0) = true |- _ => apply (land_zero_bits x y q) in H end.
  match goal with H : (N.lor _ _ =? _) = true |- _ => apply N.eqb_eq in H; apply (f_equal (fun v => N.testbit v q)) in H; rewrite !N.lor_spec in H end.
  repeat match goal with H : ?a && ?b = false |- _ => rewrite H; clear H end.
  cbn [negb andb]. apply eqb_true_iff. assumption.
Qed.

Lemma wf_board_lt b : wf_board b = true -> board_lt b.
Proof.
  unfold wf_board. intros H.
  repeat (apply andb_true_iff in H; let H' := fresh "W" in destruct H as [H H']).
  apply N.ltb_lt in H. apply N.ltb_lt in W2. apply N.eqb_eq in W.
  assert (Hu : N.lor (b_white b) (b_black b) < two64) by (apply lor_lt; assumption).
  rewrite W in Hu.
  assert (G : forall x y, N.lor x y < two64 -> x < two64 /\ y < two64).
  { intros x y Hl. split; apply lt64_iff; intros i Hi; pose proof (proj1 (lt64_iff _) Hl i Hi) as Hb; rewrite N.lor_spec in Hb; apply orb_false_iff in Hb; tauto. }
  apply G in Hu. destruct Hu as [Hu H6]. apply G in Hu. destruct Hu as [Hu H5]. apply G in Hu. destruct Hu as [Hu H4].
  apply G in Hu. destruct Hu as [Hu H3]. apply G in Hu. destruct Hu as [H1 H2].
  unfold board_lt. tauto.
Qed.

Lemma piece_on_bits b q : q < 64 ->
  piece_on_b b q = let t := bits_at b q in
    if s1 t then Pawn else if s2 t then Knight else if s3 t then Bishop else if s4 t then Rook else if s5 t then Queen else if s6 t then King else NoPiece.
Proof. intros Hq. unfold piece_on_b, bits_at. cbn [s1 s2 s3 s4 s5 s6]. rewrite !nonempty_land_bit by exact Hq. reflexivity. Qed.

Theorem wf_rep b : wf_board b = true -> rep b (cell_of_b b).
Proof.
  intros Hwf. split; [|apply wf_board_lt; exact Hwf].
  intros q Hq. pose proof (wf_board_sq b q Hwf) as Hs.
  unfold cell_of_b. rewrite piece_on_bits by exact Hq. unfold holds.
  unfold bits_at in *. cbn [s1 s2 s3 s4 s5 s6 sw sb] in *. unfold sq_wf in Hs. cbn [s1 s2 s3 s4 s5 s6 sw sb] in Hs.
  destruct (N.testbit (b_white b) q) eqn:E0, (N.testbit (b_black b) q) eqn:E1, (N.testbit (b_pawn b) q) eqn:E2, (N.testbit (b_knight b) q) eqn:E3,
    (N.testbit (b_bishop b) q) eqn:E4, (N.testbit (b_rook b) q) eqn:E5, (N.testbit (b_queen b) q) eqn:E6, (N.testbit (b_king b) q) eqn:E7;
    try discriminate Hs; (split; [split; [intros [|]; cbn [colour]; rewrite ?E0, ?E1; reflexivity
                                          |intros pc Hpc; destruct pc; try congruence; cbn [pcs]; rewrite ?E2, ?E3, ?E4, ?E5, ?E6, ?E7; reflexivity]
                                 |exact I]).
Qed.

(* conversely, the mailbox a board represents is unique and is its own reading *)
Theorem rep_cell_of b f q : rep b f -> q < 64 -> cell_of_b b q = f q.
Proof.
  intros [H _] Hq. destruct (H q Hq) as [[Hc Hp] Hg].
  unfold cell_of_b. rewrite piece_on_bits by exact Hq. unfold bits_at. cbn [s1 s2 s3 s4 s5 s6].
  pose proof (Hp Pawn ltac:(discriminate)) as P1. pose proof (Hp Knight ltac:(discriminate)) as P2.
  pose proof (Hp Bishop ltac:(discriminate)) as P3. pose proof (Hp Rook ltac:(discriminate)) as P4.
  pose proof (Hp Queen ltac:(discriminate)) as P5. pose proof (Hp King ltac:(discriminate)) as P6.
  pose proof (Hc Black) as C1. cbn [pcs colour] in *.
  rewrite P1, P2, P3, P4, P5, P6, C1.
  destruct (f q) as [[s0 p0]|]; [|reflexivity].
  destruct p0; cbn in Hg; try contradiction; destruct s0; reflexivity.
Qed.

Lemma sq_wf_pairs t : sq_wf t = true ->
  sw t && sb t = false /\
  s1 t && s2 t = false /\ s1 t && s3 t = false /\ s1 t && s4 t = false /\ s1 t && s5 t = false /\ s1 t && s6 t = false /\
  s2 t && s3 t = false /\ s2 t && s4 t = false /\ s2 t && s5 t = false /\ s2 t && s6 t = false /\
  s3 t && s4 t = false /\ s3 t && s5 t = false /\ s3 t && s6 t = false /\
  s4 t && s5 t = false /\ s4 t && s6 t = false /\ s5 t && s6 t = false /\
  (sw t || sb t) = (s1 t || s2 t || s3 t || s4 t || s5 t || s6 t).
Proof.
  unfold sq_wf. intros H. repeat (apply andb_true_iff in H; let H' := fresh "W" in destruct H as [H H']).
  repeat match goal with H : negb _ = true |- _ => apply negb_true_iff in H end.
  apply eqb_prop in W. repeat split; assumption.
Qed.

Theorem rep_wf b f : rep b f -> wf_board b = true.
Proof.
  intros [H Hlt]. destruct Hlt as (L1 & L2 & L3 & L4 & L5 & L6 & L7 & L8).
  assert (Z : forall x y, x < two64 -> (forall q, q < 64 -> N.testbit x q && N.testbit y q = false) -> N.land x y =? 0 = true).
  { intros x y Hx Hb. apply N.eqb_eq, N.bits_inj. intros i. rewrite N.land_spec, N.bits_0.
    destruct (N.lt_ge_cases i 64) as [Hi|Hi]; [apply Hb; exact Hi|rewrite (proj1 (lt64_iff x) Hx i Hi); reflexivity]. }
  assert (Rd : forall q, q < 64 -> sq_wf (bits_at b q) = true).
  { intros q Hq. destruct (H q Hq) as [[Hc Hp] Hg]. unfold sq_wf, bits_at. cbn [sw sb s1 s2 s3 s4 s5 s6].
    pose proof (Hp Pawn ltac:(discriminate)) as P1. pose proof (Hp Knight ltac:(discriminate)) as P2.
    pose proof (Hp Bishop ltac:(discriminate)) as P3. pose proof (Hp Rook ltac:(discriminate)) as P4.
    pose proof (Hp Queen ltac:(discriminate)) as P5. pose proof (Hp King ltac:(discriminate)) as P6.
    pose proof (Hc White) as C0. pose proof (Hc Black) as C1. cbn [pcs colour] in *.
    rewrite P1, P2, P3, P4, P5, P6, C0, C1. destruct (f q) as [[s0 p0]|]; [|reflexivity].
    destruct p0; cbn in Hg; try contradiction; destruct s0; reflexivity. }
  assert (Pq := fun q Hq => sq_wf_pairs _ (Rd q Hq)).
  unfold bits_at in Pq. cbn [sw sb s1 s2 s3 s4 s5 s6] in Pq.
  unfold wf_board, pairwise_disjoint, bb_empty. cbn [forallb].
  repeat (apply andb_true_iff; split); try (apply N.ltb_lt; assumption); try reflexivity;
    try (apply Z; [assumption|]; intros q Hq; pose proof (Pq q Hq) as R; tauto).
  apply N.eqb_eq, N.bits_inj. intros i. rewrite !N.lor_spec.
  destruct (N.lt_ge_cases i 64) as [Hi|Hi].
  - pose proof (Pq i Hi) as R. tauto.
  - rewrite (proj1 (lt64_iff _) L1 i Hi), (proj1 (lt64_iff _) L2 i Hi), (proj1 (lt64_iff _) L3 i Hi), (proj1 (lt64_iff _) L4 i Hi),
      (proj1 (lt64_iff _) L5 i Hi), (proj1 (lt64_iff _) L6 i Hi), (proj1 (lt64_iff _) L7 i Hi), (proj1 (lt64_iff _) L8 i Hi). reflexivity.
Qed.
