(* SafetyFacts.v — C01, the mailbox half: when does a non-king move leave the mover's king attacked?
   Exactly when it fails to capture-or-block every checker, or moves a pinned piece off its pin ray.
   Pure specification-level reasoning (no bitboards). *)
From Coq Require Import NArith ZArith List Bool Lia.
From Coq Require Import ZifyBool ZifyN ZifyNat.
From LC Require Import Bits BitsFacts Types BitboardModel MagicFacts PositionModel BoardFacts
  Spec.Rules Refine.Abs Refine.Board Refine.Make Refine.Wf Refine.MakeAbs AttackFacts PinFacts KingFacts.
Import ListNotations.
Local Open Scope N_scope.
Local Strategy 1000 [squares all64 seq].

(* leapers and pawns only attack squares with nothing in between *)
Lemma leaper_between_sweep :
  forallb (fun a => forallb (fun q =>
    (if piece_attacks [] White Pawn a q || piece_attacks [] Black Pawn a q || piece_attacks [] White Knight a q || piece_attacks [] White King a q
     then match between a q with [] => true | _ => false end else true)) all64) all64 = true.
Proof. vm_compute. reflexivity. Qed.

Definition is_slider (pc : piece) : bool := match pc with Bishop | Rook | Queen => true | _ => false end.

Lemma leaper_between b s pc a q : a < 64 -> q < 64 -> is_slider pc = false -> piece_attacks b s pc a q = true -> between a q = [].
Proof.
  intros Ha Hq Hs Hatt. pose proof (forallb_all64 _ (forallb_all64 _ leaper_between_sweep a Ha) q Hq) as H. cbv beta in H.
  destruct pc; try discriminate Hs; cbn [piece_attacks] in Hatt; try discriminate;
    [destruct s; change (piece_attacks [] White Pawn a q = true) in Hatt || change (piece_attacks [] Black Pawn a q = true) in Hatt
    |change (piece_attacks [] White Knight a q = true) in Hatt|change (piece_attacks [] White King a q = true) in Hatt];
    rewrite Hatt, ?orb_true_r in H; cbn [orb] in H; destruct (between a q); [reflexivity|discriminate|reflexivity|discriminate|reflexivity|discriminate|reflexivity|discriminate].
Qed.

Definition slider_aligned (pc : piece) (a q : N) : bool :=
  negb (a =? q) && (match pc with Bishop => same_diag a q | Rook => same_line a q | _ => same_diag a q || same_line a q end).
Lemma slider_attacks b s pc a q : is_slider pc = true ->
  piece_attacks b s pc a q = slider_aligned pc a q && all_empty b (between a q).
Proof. destruct pc; intros H; try discriminate; reflexivity. Qed.

Section Safety.
Variable f : mb.
Variables us : side.
Let them := opp_side us.
Variables k fr t : N.
Variable arrived : cell.               (* what stands on t afterwards: Some (us, piece) *)
Hypothesis Hk : k < 64. Hypothesis Hfr : fr < 64. Hypothesis Ht : t < 64.
Hypothesis Hne : fr <> t. Hypothesis Hkf : k <> fr. Hypothesis Hkt : k <> t.
Hypothesis Hmover : exists pc, f fr = Some (us, pc).
Hypothesis Harr : exists pc, arrived = Some (us, pc).

Let g : mb := upd (upd f fr None) t arrived.

(* x is the only piece strictly between a and the king *)
Definition alone_between (a x : N) : Prop := In x (between a k) /\ forall y, In y (between a k) -> y <> x -> f y = None.

Lemma g_at a : a < 64 -> g a = if a =? t then arrived else if a =? fr then None else f a.
Proof. intros _. unfold g, upd. reflexivity. Qed.

Lemma all_empty_after a : a < 64 ->
  all_empty (board_of g) (between a k) = true <-> (~ In t (between a k) /\ forall y, In y (between a k) -> y = fr \/ f y = None).
Proof.
  intros Ha. unfold all_empty. rewrite forallb_forall. split.
  - intros H. split.
    + intros Hin. specialize (H t Hin). unfold is_empty in H. rewrite at_board_of in H by exact Ht. rewrite g_at, N.eqb_refl in H by exact Ht.
      destruct Harr as [pc ->]. discriminate.
    + intros y Hy. specialize (H y Hy). assert (Hy64 : y < 64) by (apply (between_lt a k y Ha Hk Hy)).
      unfold is_empty in H. rewrite at_board_of, g_at in H by exact Hy64.
      destruct (N.eqb_spec y t) as [Eyt|Hyt]; [destruct Harr as [pc E]; rewrite E in H; discriminate|].
      destruct (N.eqb_spec y fr) as [Eyf|Hyf]; [left; exact Eyf|right]. destruct (f y); [discriminate|reflexivity].
  - intros [Hnt Hall] y Hy. assert (Hy64 : y < 64) by (apply (between_lt a k y Ha Hk Hy)).
    unfold is_empty. rewrite at_board_of, g_at by exact Hy64.
    destruct (N.eqb_spec y t) as [Eyt|Hyt]; [subst y; contradiction|]. destruct (N.eqb_spec y fr) as [Eyf|Hyf]; [reflexivity|].
    destruct (Hall y Hy) as [E|E]; [contradiction|rewrite E; reflexivity].
Qed.

Lemma all_empty_before a : a < 64 -> all_empty (board_of f) (between a k) = true <-> (forall y, In y (between a k) -> f y = None).
Proof.
  intros Ha. unfold all_empty. rewrite forallb_forall. split; intros H y Hy; specialize (H y Hy); assert (Hy64 : y < 64) by (apply (between_lt a k y Ha Hk Hy));
    unfold is_empty in *; rewrite at_board_of in * by exact Hy64; [destruct (f y); [discriminate|reflexivity]|rewrite H; reflexivity].
Qed.

(* THE characterisation: after the move the king on k is not attacked iff every piece that checks now is captured or
   blocked, and every slider that has the mover alone between itself and the king is captured or stays blocked *)
Theorem safe_after_iff :
  attacked (board_of g) k them = false <->
  ((forall a pa, a < 64 -> a <> t -> f a = Some (them, pa) -> piece_attacks (board_of f) them pa a k = true -> In t (between a k)) /\
   (forall a pa, a < 64 -> a <> t -> f a = Some (them, pa) -> is_slider pa = true ->
                 slider_aligned pa a k = true -> alone_between a fr -> In t (between a k))).
Proof.
  assert (Hatt : attacked (board_of g) k them = false <->
                 forall a, a < 64 -> match g a with Some (c, pc) => side_eqb c them && piece_attacks (board_of g) c pc a k | None => false end = false).
  { unfold attacked, attackers_of. rewrite all64_squares, <- existsb_nonempty_filter. split.
    - intros H a Ha. apply not_true_is_false. intros E. assert (existsb (fun a0 => match at_sq (board_of g) a0 with Some (c, pc) => side_eqb c them && piece_attacks (board_of g) c pc a0 k | None => false end) all64 = true); [|congruence].
      apply existsb_exists. exists a. split; [apply in_all64; exact Ha|]. rewrite at_board_of by exact Ha. exact E.
    - intros H. apply not_true_is_false. intros E. apply existsb_exists in E. destruct E as [a [Ha E]]. apply in_all64 in Ha. rewrite at_board_of in E by exact Ha. rewrite (H a Ha) in E. discriminate. }
  rewrite Hatt. clear Hatt. destruct Hmover as [pcm Hfm].
  assert (Hthem_ne : forall a pa, f a = Some (them, pa) -> a <> fr) by (intros a pa E ->; rewrite Hfm in E; inversion E; unfold them in *; destruct us; discriminate).
  split.
  - intros H. split.
    + intros a pa Ha Hat Efa Hattf. specialize (H a Ha). rewrite g_at in H by exact Ha.
      replace (a =? t) with false in H by lia. replace (a =? fr) with false in H by (pose proof (Hthem_ne a pa Efa); lia).
      rewrite Efa, side_eqb_refl in H. cbn [andb] in H.
      destruct (is_slider pa) eqn:Es.
      * rewrite slider_attacks in H, Hattf by exact Es. apply andb_true_iff in Hattf. destruct Hattf as [Hal Hemp]. rewrite Hal in H. cbn [andb] in H.
        pose proof (proj1 (all_empty_before a Ha) Hemp) as Hemp'. clear Hemp. rename Hemp' into Hemp.
        destruct (in_dec N.eq_dec t (between a k)) as [Hin|Hnin]; [exact Hin|]. exfalso.
        assert (all_empty (board_of g) (between a k) = true); [|congruence]. apply (proj2 (all_empty_after a Ha)). split; [exact Hnin|]. intros y Hy. right. apply Hemp. exact Hy.
      * exfalso. assert (piece_attacks (board_of g) them pa a k = piece_attacks (board_of f) them pa a k) by (destruct pa; try discriminate Es; reflexivity). congruence.
    + intros a pa Ha Hat Efa Es Hal [Hin Halone]. specialize (H a Ha). rewrite g_at in H by exact Ha.
      replace (a =? t) with false in H by lia. replace (a =? fr) with false in H by (pose proof (Hthem_ne a pa Efa); lia).
      rewrite Efa, side_eqb_refl in H. cbn [andb] in H. rewrite slider_attacks in H by exact Es.
      rewrite Hal in H. cbn [andb] in H.
      destruct (in_dec N.eq_dec t (between a k)) as [Hin'|Hnin]; [exact Hin'|]. exfalso.
      assert (all_empty (board_of g) (between a k) = true); [|congruence]. apply (proj2 (all_empty_after a Ha)). split; [exact Hnin|].
      intros y Hy. destruct (N.eq_dec y fr) as [E|E]; [left; exact E|right; apply Halone; assumption].
  - intros [S1 S2] a Ha. rewrite g_at by exact Ha.
    destruct (N.eqb_spec a t) as [->|Hat]; [destruct Harr as [pc ->]; unfold them; destruct us; reflexivity|].
    destruct (N.eqb_spec a fr) as [->|Haf]; [reflexivity|].
    destruct (f a) as [[c pa]|] eqn:Efa; [|reflexivity]. destruct (side_eqb c them) eqn:Ec; [|reflexivity]. apply side_eqb_true in Ec. subst c. cbn [andb].
    apply not_true_is_false. intros Hattg.
    destruct (is_slider pa) eqn:Es.
    + rewrite slider_attacks in Hattg by exact Es. apply andb_true_iff in Hattg. destruct Hattg as [Hal Hemp].
      pose proof (proj1 (all_empty_after a Ha) Hemp) as [Hnt Hall].
      destruct (in_dec N.eq_dec fr (between a k)) as [Hin|Hnin].
      * apply Hnt. apply (S2 a pa Ha Hat Efa Es); [exact Hal|].
        split; [exact Hin|]. intros y Hy Hyf. destruct (Hall y Hy) as [E|E]; [contradiction|exact E].
      * apply Hnt. apply (S1 a pa Ha Hat Efa). rewrite slider_attacks by exact Es. rewrite Hal. cbn [andb]. apply (proj2 (all_empty_before a Ha)).
        intros y Hy. destruct (Hall y Hy) as [E|E]; [subst y; contradiction|exact E].
    + assert (E : piece_attacks (board_of g) them pa a k = piece_attacks (board_of f) them pa a k) by (destruct pa; try discriminate Es; reflexivity).
      rewrite E in Hattg. pose proof (S1 a pa Ha Hat Efa Hattg) as Hin. rewrite (leaper_between _ _ _ a k Ha Hk Es Hattg) in Hin. destruct Hin.
Qed.
End Safety.

(* ---------- the general form: several squares vacated at once (en passant vacates two) ---------- *)
Section SafetyGeneral.
Variable f : mb.
Variables us : side.
Let them := opp_side us.
Variables k t : N.
Variable V : list N.                   (* vacated squares *)
Variable arrived : cell.
Hypothesis Hk : k < 64. Hypothesis Ht : t < 64.
Hypothesis HV : forall v, In v V -> v < 64 /\ v <> t /\ v <> k.
Hypothesis Hkt : k <> t.
Hypothesis Harr : exists pc, arrived = Some (us, pc).

Definition vacate (h : mb) (l : list N) : mb := fun x => if existsb (N.eqb x) l then None else h x.
Let g : mb := upd (vacate f V) t arrived.

Lemma in_V_dec x : {In x V} + {~ In x V}. Proof. apply in_dec, N.eq_dec. Qed.
Lemma vacate_at x : vacate f V x = if in_V_dec x then None else f x.
Proof.
  unfold vacate. destruct (in_V_dec x) as [H|H].
  - assert (existsb (N.eqb x) V = true) by (apply existsb_exists; exists x; split; [exact H|apply N.eqb_refl]). rewrite H0. reflexivity.
  - destruct (existsb (N.eqb x) V) eqn:E; [|reflexivity]. apply existsb_exists in E. destruct E as [y [Hy E]]. apply N.eqb_eq in E. subst. contradiction.
Qed.

Lemma all_empty_after_gen a : a < 64 ->
  all_empty (board_of g) (between a k) = true <-> (~ In t (between a k) /\ forall y, In y (between a k) -> In y V \/ f y = None).
Proof.
  intros Ha. unfold all_empty. rewrite forallb_forall. split.
  - intros H. split.
    + intros Hin. specialize (H t Hin). unfold is_empty in H. rewrite at_board_of in H by exact Ht. unfold g in H. rewrite upd_same in H. destruct Harr as [pc E]. rewrite E in H. discriminate.
    + intros y Hy. specialize (H y Hy). assert (Hy64 : y < 64) by (apply (between_lt a k y Ha Hk Hy)).
      unfold is_empty in H. rewrite at_board_of in H by exact Hy64. unfold g, upd in H.
      destruct (N.eqb_spec y t) as [Eyt|Hyt]; [destruct Harr as [pc E]; rewrite E in H; discriminate|].
      rewrite vacate_at in H. destruct (in_V_dec y); [left; assumption|right]. destruct (f y); [discriminate|reflexivity].
  - intros [Hnt Hall] y Hy. assert (Hy64 : y < 64) by (apply (between_lt a k y Ha Hk Hy)).
    unfold is_empty. rewrite at_board_of by exact Hy64. unfold g, upd.
    destruct (N.eqb_spec y t) as [Eyt|Hyt]; [subst y; contradiction|]. rewrite vacate_at. destruct (in_V_dec y); [reflexivity|].
    destruct (Hall y Hy) as [E|E]; [contradiction|rewrite E; reflexivity].
Qed.

(* after the move the king on k is not attacked iff no remaining enemy leaper attacks it and every remaining enemy slider
   aligned with it is blocked by the arriving piece or by a piece that stays *)
Theorem safe_after_gen :
  attacked (board_of g) k them = false <->
  (forall a pa, a < 64 -> a <> t -> ~ In a V -> f a = Some (them, pa) ->
     (is_slider pa = false -> piece_attacks (board_of f) them pa a k = false) /\
     (is_slider pa = true -> slider_aligned pa a k = true -> In t (between a k) \/ exists y, In y (between a k) /\ ~ In y V /\ f y <> None)).
Proof.
  assert (Hatt : attacked (board_of g) k them = false <->
                 forall a, a < 64 -> match g a with Some (c, pc) => side_eqb c them && piece_attacks (board_of g) c pc a k | None => false end = false).
  { unfold attacked, attackers_of. rewrite all64_squares, <- existsb_nonempty_filter. split.
    - intros H a Ha. apply not_true_is_false. intros E. assert (existsb (fun a0 => match at_sq (board_of g) a0 with Some (c, pc) => side_eqb c them && piece_attacks (board_of g) c pc a0 k | None => false end) all64 = true); [|congruence].
      apply existsb_exists. exists a. split; [apply in_all64; exact Ha|]. rewrite at_board_of by exact Ha. exact E.
    - intros H. apply not_true_is_false. intros E. apply existsb_exists in E. destruct E as [a [Ha E]]. apply in_all64 in Ha. rewrite at_board_of in E by exact Ha. rewrite (H a Ha) in E. discriminate. }
  rewrite Hatt. clear Hatt.
  assert (Hga : forall a, a <> t -> ~ In a V -> g a = f a).
  { intros a H1 H2. unfold g. rewrite upd_other by exact H1. rewrite vacate_at. destruct (in_V_dec a); [contradiction|reflexivity]. }
  split.
  - intros H a pa Ha Hat HaV Efa. specialize (H a Ha). rewrite (Hga a Hat HaV), Efa, side_eqb_refl in H. cbn [andb] in H. split.
    + intros Es. assert (E : piece_attacks (board_of g) them pa a k = piece_attacks (board_of f) them pa a k) by (destruct pa; try discriminate Es; reflexivity). congruence.
    + intros Es Hal. rewrite slider_attacks, Hal in H by exact Es. cbn [andb] in H.
      destruct (in_dec N.eq_dec t (between a k)) as [Hin|Hnin]; [left; exact Hin|right].
      (* some piece that stays blocks the line *)
      assert (Hex : ~ (forall y, In y (between a k) -> In y V \/ f y = None)).
      { intros Hall. assert (all_empty (board_of g) (between a k) = true); [|congruence]. apply (proj2 (all_empty_after_gen a Ha)). split; assumption. }
      clear H. induction (between a k) as [|y r IH]; [exfalso; apply Hex; intros y []|].
      destruct (in_V_dec y) as [Hy|Hy].
      * destruct IH as [z [Hz1 Hz2]].
        -- intros Hnin'. apply Hnin. right. exact Hnin'.
        -- intros Hall. apply Hex. intros z [<-|Hz]; [left; exact Hy|apply Hall; exact Hz].
        -- exists z. split; [right; exact Hz1|exact Hz2].
      * destruct (f y) eqn:Efy.
        -- exists y. split; [left; reflexivity|]. split; [exact Hy|congruence].
        -- destruct IH as [z [Hz1 Hz2]].
           ++ intros Hnin'. apply Hnin. right. exact Hnin'.
           ++ intros Hall. apply Hex. intros z [<-|Hz]; [right; exact Efy|apply Hall; exact Hz].
           ++ exists z. split; [right; exact Hz1|exact Hz2].
  - intros H a Ha. unfold g at 1. unfold upd.
    destruct (N.eqb_spec a t) as [Eat|Hat]; [destruct Harr as [pc ->]; unfold them; destruct us; reflexivity|].
    rewrite vacate_at. destruct (in_V_dec a) as [HaV|HaV]; [reflexivity|].
    destruct (f a) as [[c pa]|] eqn:Efa; [|reflexivity]. destruct (side_eqb c them) eqn:Ec; [|reflexivity]. apply side_eqb_true in Ec. subst c. cbn [andb].
    destruct (H a pa Ha Hat HaV Efa) as [H1 H2].
    destruct (is_slider pa) eqn:Es.
    + rewrite slider_attacks by exact Es. destruct (slider_aligned pa a k) eqn:Hal; [|reflexivity]. cbn [andb].
      apply not_true_is_false. intros Hemp. pose proof (proj1 (all_empty_after_gen a Ha) Hemp) as [Hnt Hall].
      destruct (H2 eq_refl eq_refl) as [Hin|[y [Hy [HyV Hfy]]]]; [contradiction|]. destruct (Hall y Hy) as [E|E]; contradiction.
    + assert (E : piece_attacks (board_of g) them pa a k = piece_attacks (board_of f) them pa a k) by (destruct pa; try discriminate Es; reflexivity).
      rewrite E. apply H1. reflexivity.
Qed.
End SafetyGeneral.
