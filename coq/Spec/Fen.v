(* Spec/Fen.v — FEN / Shredder-FEN / X-FEN on spec positions: the canonical encoder [fen_of] and an
   independent decoder [of_fen] (rank strings are expanded cell by cell, ranks are then stacked —
   no running square index as in the library). *)
From Coq Require Import NArith List Bool.
From LC Require Import Types Spec.Rules.
Import ListNotations.
Local Open Scope N_scope.

Definition sstr := list N.

(* decimal numeral of n, most significant digit first, as Coq's standard library writes it (Decimal.uint) *)
Fixpoint digits_of_uint (u : Decimal.uint) : sstr :=
  match u with
  | Decimal.Nil => []
  | Decimal.D0 r => 48 :: digits_of_uint r | Decimal.D1 r => 49 :: digits_of_uint r
  | Decimal.D2 r => 50 :: digits_of_uint r | Decimal.D3 r => 51 :: digits_of_uint r
  | Decimal.D4 r => 52 :: digits_of_uint r | Decimal.D5 r => 53 :: digits_of_uint r
  | Decimal.D6 r => 54 :: digits_of_uint r | Decimal.D7 r => 55 :: digits_of_uint r
  | Decimal.D8 r => 56 :: digits_of_uint r | Decimal.D9 r => 57 :: digits_of_uint r
  end.
Definition dec (n : N) : sstr := digits_of_uint (N.to_uint n).

Definition char_of (s : side) (pc : piece) : N :=
  let base := match pc with Pawn => 80 | Knight => 78 | Bishop => 66 | Rook => 82 | Queen => 81 | King => 75 | NoPiece => 63 end in
  match s with White => base | Black => base + 32 end.
Definition cell_of_char (c : N) : option (side * piece) :=
  let pc_of (u : N) : option piece :=
    match u with 80 => Some Pawn | 78 => Some Knight | 66 => Some Bishop | 82 => Some Rook
               | 81 => Some Queen | 75 => Some King | _ => None end in
  if (65 <=? c) && (c <=? 90) then option_map (fun pc => (White, pc)) (pc_of c)
  else if (97 <=? c) && (c <=? 122) then option_map (fun pc => (Black, pc)) (pc_of (c - 32))
  else None.

Fixpoint rank_str (cells : list cell) (run : N) : sstr :=
  match cells with
  | [] => if run =? 0 then [] else [48 + run]
  | None :: r => rank_str r (run + 1)
  | Some (s, pc) :: r => (if run =? 0 then [] else [48 + run]) ++ char_of s pc :: rank_str r 0
  end.
Definition rank_cells (b : sboard) (r : N) : list cell := map (fun f => at_sq b (mk_sq f r)) [0;1;2;3;4;5;6;7].
Fixpoint join (sep : N) (l : list sstr) : sstr :=
  match l with [] => [] | [x] => x | x :: r => x ++ sep :: join sep r end.
Definition sq_name (q : N) : sstr := [97 + fileof q; 49 + rankof q].

Definition castling_field (dfrc : bool) (p : spos) : sstr :=
  let f (r : option N) (std base : N) : sstr :=
    match r with Some q => if dfrc then [base + fileof q] else [std] | None => [] end in
  let s := f (s_wk p) 75 65 ++ f (s_wq p) 81 65 ++ f (s_bk p) 107 97 ++ f (s_bq p) 113 97 in
  match s with [] => [45] | _ => s end.

Definition fen_of (dfrc : bool) (p : spos) : sstr :=
  join 32 [ join 47 (map (fun r => rank_str (rank_cells (s_board p) r) 0) [7;6;5;4;3;2;1;0]);
            (match s_turn p with White => [119] | Black => [98] end);
            castling_field dfrc p;
            (match s_ep p with Some e => sq_name e | None => [45] end);
            dec (s_half p); dec (s_full p) ].

(* ---------- decoder ---------- *)
Fixpoint split_on (sep : N) (s : sstr) (cur : sstr) : list sstr :=
  match s with
  | [] => [rev cur]
  | c :: r => if c =? sep then rev cur :: split_on sep r [] else split_on sep r (c :: cur)
  end.
Definition expand_rank (s : sstr) : list cell :=
  flat_map (fun c => if (49 <=? c) && (c <=? 56) then repeat None (N.to_nat (c - 48)) else [cell_of_char c]) s.
Definition undec (s : sstr) : N := fold_left (fun acc c => acc * 10 + (c - 48)) s 0.

Definition rook_at (b : sboard) (s : side) (q : N) : bool :=
  match at_sq b q with Some (c, Rook) => side_eqb c s | _ => false end.
(* outermost rook of side s on the king's side / queen's side of its king, on the king's rank *)
Definition outer_rook (b : sboard) (s : side) (kingside : bool) : option N :=
  match find_king b s with
  | None => None
  | Some k =>
    let cands := filter (fun q => (rankof q =? rankof k) && rook_at b s q &&
                                  (if kingside then fileof k <? fileof q else fileof q <? fileof k)) squares in
    if kingside then last (map Some cands) None else hd None (map Some cands)
  end.
(* decode one character of the castling field into (right index, rook square) *)
Definition decode_castle_char (dfrc : bool) (b : sboard) (c : N) : option (N * N) :=
  if dfrc then
    if (c =? 75) then option_map (fun q => (0, q)) (outer_rook b White true)
    else if (c =? 81) then option_map (fun q => (1, q)) (outer_rook b White false)
    else if (c =? 107) then option_map (fun q => (2, q)) (outer_rook b Black true)
    else if (c =? 113) then option_map (fun q => (3, q)) (outer_rook b Black false)
    else if (65 <=? c) && (c <=? 72) then
      let q := c - 65 in
      match find_king b White with
      | Some k => if rook_at b White q then Some (if fileof k <? fileof q then 0 else 1, q) else None
      | None => None end
    else if (97 <=? c) && (c <=? 104) then
      let q := 56 + (c - 97) in
      match find_king b Black with
      | Some k => if rook_at b Black q then Some (if fileof k <? fileof q then 2 else 3, q) else None
      | None => None end
    else None
  else
    if (c =? 75) && rook_at b White 7 then Some (0, 7)
    else if (c =? 81) && rook_at b White 0 then Some (1, 0)
    else if (c =? 107) && rook_at b Black 63 then Some (2, 63)
    else if (c =? 113) && rook_at b Black 56 then Some (3, 56)
    else None.
Definition right_of (l : list (N * N)) (i : N) : option N :=
  option_map snd (find (fun x => fst x =? i) (rev l)).       (* the last grant wins *)

Definition of_fen (dfrc : bool) (s : sstr) : option spos :=
  match split_on 32 s [] with
  | [bd; tm; cs; e; h; f] =>
    let ranks := split_on 47 bd [] in
    let b := flat_map expand_rank (rev ranks) in
    let grants := if (match cs with [45] => true | _ => false end) then [] else flat_map (fun c => match decode_castle_char dfrc b c with Some x => [x] | None => [] end) cs in
    Some (mkS b (match tm with [119] => White | _ => Black end)
              (right_of grants 0) (right_of grants 1) (right_of grants 2) (right_of grants 3)
              (match e with [45] => None | [c0; c1] => Some (mk_sq (c0 - 97) (c1 - 49)) | _ => None end)
              (undec h) (undec f))
  | _ => None
  end.
