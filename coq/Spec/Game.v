(* Spec/Game.v — repetition by counting, game-end definitions, on spec positions. *)
From Coq Require Import NArith List Bool.
From LC Require Import Types Spec.Rules.
Import ListNotations.
Local Open Scope N_scope.

Definition cell_eqb (a b : cell) : bool :=
  match a, b with
  | None, None => true
  | Some (s1, p1), Some (s2, p2) => side_eqb s1 s2 && piece_eqb p1 p2
  | _, _ => false
  end.
Fixpoint board_eqb (a b : sboard) : bool :=
  match a, b with
  | [], [] => true
  | x :: a', y :: b' => cell_eqb x y && board_eqb a' b'
  | _, _ => false
  end.
Definition opt_eqb (a b : option N) : bool :=
  match a, b with None, None => true | Some x, Some y => x =? y | _, _ => false end.
Definition held (a : option N) : bool := match a with Some _ => true | None => false end.
(* same placement, side to move, castling rights, en-passant square *)
Definition same_core (a b : spos) : bool :=
  board_eqb (s_board a) (s_board b) && side_eqb (s_turn a) (s_turn b) &&
  Bool.eqb (held (s_wk a)) (held (s_wk b)) && Bool.eqb (held (s_wq a)) (held (s_wq b)) &&
  Bool.eqb (held (s_bk a)) (held (s_bk b)) && Bool.eqb (held (s_bq a)) (held (s_bq b)) &&
  opt_eqb (s_ep a) (s_ep b).

(* a game as the specification sees it: the current position and the earlier positions since the last
   capture, pawn move, null move or set_fen (newest first) *)
Record sgame := mkG { g_cur : spos; g_past : list spos }.
Definition g_start (p : spos) : sgame := mkG p [].
Definition irreversible (m : move) : bool :=
  piece_eqb (m_piece m) Pawn || match m_type m with Capture | Enpassant | PromoCapture => true | _ => false end.
Definition g_move (g : sgame) (m : move) : sgame :=
  let nxt := apply_move (g_cur g) m in
  if irreversible m then mkG nxt [] else mkG nxt (g_cur g :: g_past g).
Definition g_null (g : sgame) : sgame := mkG (apply_null (g_cur g)) [].
Definition occurrences (g : sgame) : N :=
  1 + N.of_nat (length (filter (same_core (g_cur g)) (g_past g))).
Definition spec_threefold (g : sgame) : bool := 3 <=? occurrences g.

Definition spec_no_moves (p : spos) : bool := match spec_moves p with [] => true | _ => false end.
Definition spec_checkmate (p : spos) : bool := spec_no_moves p && spec_in_check p.
Definition spec_stalemate (p : spos) : bool := spec_no_moves p && negb (spec_in_check p).
Definition spec_fifty (p : spos) : bool := 100 <=? s_half p.
Definition spec_draw (g : sgame) : bool := (spec_threefold g || spec_fifty (g_cur g)) && negb (spec_checkmate (g_cur g)).
Definition spec_terminal (g : sgame) : bool := spec_no_moves (g_cur g) || spec_draw g.
