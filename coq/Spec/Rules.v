(* Spec/Rules.v — the specification S: mailbox chess.  No bitboards, no pins, no check masks,
   no XOR.  Board = 64 cells; the rules are "pseudo-legal and own king not attacked afterwards".
   Shares only the enums and the six-field move record (Types.v) with the model. *)
From Coq Require Import NArith ZArith List Bool.
From LC Require Import Types.
Import ListNotations.
Local Open Scope N_scope.

Definition cell := option (side * piece).
Definition sboard := list cell.                         (* 64 cells, a1 = 0 .. h8 = 63 *)
Definition at_sq (b : sboard) (q : N) : cell := nth (N.to_nat q) b None.

Record spos := mkS {
  s_board : sboard;
  s_turn : side;
  s_wk : option N; s_wq : option N; s_bk : option N; s_bq : option N;   (* rook square of each held right *)
  s_ep : option N;
  s_half : N; s_full : N }.

Definition squares : list N := map N.of_nat (seq 0 64).
Definition fileof (q : N) : N := q mod 8.
Definition rankof (q : N) : N := q / 8.
Definition mk_sq (f r : N) : N := 8 * r + f.
Definition adiff (a b : N) : N := if a <? b then b - a else a - b.

(* ---------- geometry ---------- *)
Definition same_line (a b : N) : bool := (fileof a =? fileof b) || (rankof a =? rankof b).
Definition same_diag (a b : N) : bool := adiff (fileof a) (fileof b) =? adiff (rankof a) (rankof b).
Definition step1 (x y : N) : Z := if x <? y then 1%Z else if y <? x then (-1)%Z else 0%Z.
(* squares strictly between a and b when they share a rank, file or diagonal; [] otherwise *)
Definition between (a b : N) : list N :=
  if negb (a =? b) && (same_line a b || same_diag a b) then
    let df := step1 (fileof a) (fileof b) in
    let dr := step1 (rankof a) (rankof b) in
    let n := N.max (adiff (fileof a) (fileof b)) (adiff (rankof a) (rankof b)) in
    map (fun k => Z.to_N (Z.of_N a + Z.of_nat k * (df + 8 * dr))%Z) (seq 1 (N.to_nat n - 1))
  else [].

Definition is_empty (b : sboard) (q : N) : bool := match at_sq b q with None => true | Some _ => false end.
Definition all_empty (b : sboard) (l : list N) : bool := forallb (is_empty b) l.

(* the piece (s, pc) standing on a attacks q *)
Definition piece_attacks (b : sboard) (s : side) (pc : piece) (a q : N) : bool :=
  let df := adiff (fileof a) (fileof q) in
  let dr := adiff (rankof a) (rankof q) in
  match pc with
  | Pawn => (df =? 1) && match s with White => rankof q =? rankof a + 1 | Black => rankof q + 1 =? rankof a end
  | Knight => ((df =? 1) && (dr =? 2)) || ((df =? 2) && (dr =? 1))
  | King => (N.max df dr =? 1)
  | Bishop => negb (a =? q) && same_diag a q && all_empty b (between a q)
  | Rook => negb (a =? q) && same_line a q && all_empty b (between a q)
  | Queen => negb (a =? q) && (same_diag a q || same_line a q) && all_empty b (between a q)
  | NoPiece => false
  end.
Definition attacks (b : sboard) (a q : N) : bool :=
  match at_sq b a with Some (s, pc) => piece_attacks b s pc a q | None => false end.
(* the set of s's pieces attacking q *)
Definition attackers_of (b : sboard) (q : N) (s : side) : list N :=
  filter (fun a => match at_sq b a with Some (c, pc) => side_eqb c s && piece_attacks b c pc a q | None => false end) squares.
Definition attacked (b : sboard) (q : N) (s : side) : bool := negb (match attackers_of b q s with [] => true | _ => false end).

Definition find_king (b : sboard) (s : side) : option N :=
  find (fun q => match at_sq b q with Some (c, King) => side_eqb c s | _ => false end) squares.
Definition king_attacked (b : sboard) (s : side) : bool :=
  match find_king b s with Some k => attacked b k (opp_side s) | None => false end.

(* ---------- board update ---------- *)
Definition put (b : sboard) (q : N) (c : cell) : sboard :=
  map (fun x => if x =? q then c else at_sq b x) squares.

Definition castle_dest (s : side) (mt : mtype) : N * N :=     (* (king destination, rook destination) *)
  match s, mt with
  | White, Ksc => (6, 5) | White, _ => (2, 3) | Black, Ksc => (62, 61) | Black, _ => (58, 59)
  end.

Definition apply_board (b : sboard) (s : side) (m : move) : sboard :=
  let fr := m_from m in let to := m_to m in
  match m_type m with
  | Normal | Capture | Double => put (put b fr None) to (Some (s, m_piece m))
  | Enpassant =>
    let victim := match s with White => to - 8 | Black => to + 8 end in
    put (put (put b fr None) victim None) to (Some (s, Pawn))
  | Promo | PromoCapture => put (put b fr None) to (Some (s, m_promo m))
  | Ksc | Qsc =>
    let '(kd, rd) := castle_dest s (m_type m) in
    put (put (put (put b fr None) to None) kd (Some (s, King))) rd (Some (s, Rook))
  end.

Definition lose (r : option N) (kmoved : bool) (fr to : N) : option N :=
  match r with
  | Some q => if kmoved || (fr =? q) || (to =? q) then None else Some q
  | None => None
  end.

(* the successor prescribed by the rules — all components *)
Definition apply_move (p : spos) (m : move) : spos :=
  let s := s_turn p in
  let fr := m_from m in let to := m_to m in
  let kw := piece_eqb (m_piece m) King && side_eqb s White in
  let kb := piece_eqb (m_piece m) King && side_eqb s Black in
  let reset := piece_eqb (m_piece m) Pawn ||
               match m_type m with Capture | Enpassant | PromoCapture => true | _ => false end in
  mkS (apply_board (s_board p) s m) (opp_side s)
      (lose (s_wk p) kw fr to) (lose (s_wq p) kw fr to) (lose (s_bk p) kb fr to) (lose (s_bq p) kb fr to)
      (match m_type m with Double => Some (match s with White => to - 8 | Black => to + 8 end) | _ => None end)
      (if reset then 0 else s_half p + 1)
      (match s with Black => s_full p + 1 | White => s_full p end).

Definition apply_null (p : spos) : spos :=
  mkS (s_board p) (opp_side (s_turn p)) (s_wk p) (s_wq p) (s_bk p) (s_bq p) None 0 (s_full p).

(* ---------- pseudo-legal candidates with full labels ---------- *)
Definition promo_pieces : list piece := [Queen; Rook; Bishop; Knight].
Definition last_rank (s : side) (q : N) : bool := match s with White => rankof q =? 7 | Black => rankof q =? 0 end.

Definition pawn_candidates (p : spos) (fr : N) : list move :=
  let b := s_board p in let s := s_turn p in
  let fwd (q : N) : option N :=
    match s with White => if rankof q <? 7 then Some (q + 8) else None
               | Black => if 0 <? rankof q then Some (q - 8) else None end in
  let start_rank := match s with White => rankof fr =? 1 | Black => rankof fr =? 6 end in
  let pushes :=
    match fwd fr with
    | Some t1 =>
      if is_empty b t1 then
        (if last_rank s t1 then map (fun pr => mkMove Promo fr t1 Pawn NoPiece pr) promo_pieces
         else [mkMove Normal fr t1 Pawn NoPiece NoPiece]) ++
        (if start_rank then
           match fwd t1 with
           | Some t2 => if is_empty b t2 then [mkMove Double fr t2 Pawn NoPiece NoPiece] else []
           | None => []
           end
         else [])
      else []
    | None => []
    end in
  let caps :=
    flat_map (fun to =>
      if piece_attacks b s Pawn fr to then
        match at_sq b to with
        | Some (c, pc) =>
          if negb (side_eqb c s) && negb (piece_eqb pc King) then
            if last_rank s to then map (fun pr => mkMove PromoCapture fr to Pawn pc pr) promo_pieces
            else [mkMove Capture fr to Pawn pc NoPiece]
          else []
        | None =>
          match s_ep p with
          | Some e => if e =? to then [mkMove Enpassant fr to Pawn Pawn NoPiece] else []
          | None => []
          end
        end
      else []) squares in
  pushes ++ caps.

Definition piece_candidates (p : spos) (fr : N) (pc : piece) : list move :=
  let b := s_board p in let s := s_turn p in
  flat_map (fun to =>
    if piece_attacks b s pc fr to then
      match at_sq b to with
      | None => [mkMove Normal fr to pc NoPiece NoPiece]
      | Some (c, cp) =>
        if negb (side_eqb c s) && negb (piece_eqb cp King) then [mkMove Capture fr to pc cp NoPiece] else []
      end
    else []) squares.

(* squares from a to b inclusive of b, exclusive of a (a itself when a = b is excluded) *)
Definition path_to (a b : N) : list N := if a =? b then [] else between a b ++ [b].

Definition castle_candidate (p : spos) (mt : mtype) (right : option N) : list move :=
  let b := s_board p in let s := s_turn p in
  match right, find_king b s with
  | Some rsq, Some ksq =>
    let '(kd, rd) := castle_dest s mt in
    let others_empty (l : list N) := forallb (fun q => (q =? ksq) || (q =? rsq) || is_empty b q) l in
    if negb (attacked b ksq (opp_side s)) &&
       others_empty (path_to ksq kd) && others_empty (path_to rsq rd) &&
       forallb (fun q => negb (attacked b q (opp_side s))) (path_to ksq kd)
    then [mkMove mt ksq rsq King NoPiece NoPiece] else []
  | _, _ => []
  end.

Definition pseudo_moves (p : spos) : list move :=
  let b := s_board p in let s := s_turn p in
  flat_map (fun fr =>
    match at_sq b fr with
    | Some (c, pc) =>
      if side_eqb c s then
        match pc with Pawn => pawn_candidates p fr | NoPiece => [] | _ => piece_candidates p fr pc end
      else []
    | None => []
    end) squares ++
  match s with
  | White => castle_candidate p Ksc (s_wk p) ++ castle_candidate p Qsc (s_wq p)
  | Black => castle_candidate p Ksc (s_bk p) ++ castle_candidate p Qsc (s_bq p)
  end.

(* legal: pseudo-legal and the mover's king is not attacked in the successor *)
Definition leaves_king_safe (p : spos) (m : move) : bool :=
  negb (king_attacked (apply_board (s_board p) (s_turn p) m) (s_turn p)).
Definition spec_moves (p : spos) : list move := filter (leaves_king_safe p) (pseudo_moves p).
Definition spec_legal (p : spos) (m : move) : bool := existsb (move_eqb m) (spec_moves p).

Definition spec_in_check (p : spos) : bool := king_attacked (s_board p) (s_turn p).

Fixpoint spec_perft (d : nat) (p : spos) : N :=
  match d with
  | O => 1
  | S d' => fold_left (fun acc m => acc + spec_perft d' (apply_move p m)) (spec_moves p) 0
  end.

(* ---------- derived sets (C08, C13, C18) ---------- *)
Definition spec_squares_attacked (b : sboard) (s : side) : list N := filter (fun q => attacked b q s) squares.
Definition remove_king (b : sboard) (s : side) : sboard :=
  match find_king b s with Some k => put b k None | None => b end.
Definition spec_king_allowed (b : sboard) (s : side) : list N :=
  let b' := remove_king b s in
  filter (fun q =>
    negb (match at_sq b q with Some (c, pc) => side_eqb c s || piece_eqb pc King | None => false end) &&
    negb (attacked b' q (opp_side s))) squares.
(* x holds a piece of s, is not s's king, and is the only piece strictly between s's king and an enemy
   slider of the matching kind *)
Definition spec_pinned (b : sboard) (s : side) : list N :=
  match find_king b s with
  | None => []
  | Some k =>
    filter (fun x =>
      match at_sq b x with
      | Some (c, _) =>
        side_eqb c s && negb (x =? k) &&
        existsb (fun a =>
          match at_sq b a with
          | Some (ca, pa) =>
            negb (side_eqb ca s) &&
            (match pa with
             | Bishop => same_diag k a | Rook => same_line k a
             | Queen => same_diag k a || same_line k a | _ => false end) &&
            negb (a =? k) &&
            existsb (N.eqb x) (between k a) &&
            forallb (fun q => (q =? x) || is_empty b q) (between k a)
          | None => false
          end) squares
      | None => false
      end) squares
  end.
Definition spec_passed (b : sboard) (s : side) : list N :=
  filter (fun x =>
    match at_sq b x with
    | Some (c, Pawn) =>
      side_eqb c s &&
      forallb (fun q =>
        negb (match at_sq b q with Some (c2, Pawn) => negb (side_eqb c2 s) | _ => false end &&
              (adiff (fileof q) (fileof x) <=? 1) &&
              match s with White => rankof x <? rankof q | Black => rankof q <? rankof x end)) squares
    | _ => false
    end) squares.

(* ---------- the property file's domain: legal-consistent positions ---------- *)
Definition count_cells (b : sboard) (f : cell -> bool) : nat := length (filter (fun q => f (at_sq b q)) squares).
Definition right_ok (b : sboard) (s : side) (kingside : bool) (dfrc : bool) (r : option N) : bool :=
  match r with
  | None => true
  | Some rsq =>
    match find_king b s with
    | None => false
    | Some k =>
      let home := match s with White => 0 | Black => 7 end in
      (rankof k =? home) && (rankof rsq =? home) &&
      match at_sq b rsq with Some (c, Rook) => side_eqb c s | _ => false end &&
      (if kingside then fileof k <? fileof rsq else fileof rsq <? fileof k) &&
      (if dfrc then true else (fileof k =? 4) && (fileof rsq =? (if kingside then 7 else 0)))
    end
  end.
Definition ep_ok (p : spos) : bool :=
  match s_ep p with
  | None => true
  | Some e =>
    let b := s_board p in let s := s_turn p in            (* s is to move; opp_side s just double-pushed *)
    let them := opp_side s in
    (e <? 64) && (rankof e =? match s with White => 5 | Black => 2 end) &&
    let pawn_sq := match s with White => e - 8 | Black => e + 8 end in
    let origin := match s with White => e + 8 | Black => e - 8 end in
    match at_sq b pawn_sq with Some (c, Pawn) => side_eqb c them | _ => false end &&
    is_empty b e && is_empty b origin &&
    (* before the double push the side not to move (s) must not have been attacked... i.e. the
       side that was NOT on move then — s — may not have been in check *)
    negb (king_attacked (put (put b pawn_sq None) origin (Some (them, Pawn))) s)
  end.
Definition legal_consistent (dfrc : bool) (p : spos) : bool :=
  let b := s_board p in
  (length b =? 64)%nat &&
  (count_cells b (fun c => match c with Some (White, King) => true | _ => false end) =? 1)%nat &&
  (count_cells b (fun c => match c with Some (Black, King) => true | _ => false end) =? 1)%nat &&
  forallb (fun q => match at_sq b q with Some (_, Pawn) => negb ((rankof q =? 0) || (rankof q =? 7))
                                    | Some (_, NoPiece) => false | _ => true end) squares &&
  negb (king_attacked b (opp_side (s_turn p))) &&
  right_ok b White true dfrc (s_wk p) && right_ok b White false dfrc (s_wq p) &&
  right_ok b Black true dfrc (s_bk p) && right_ok b Black false dfrc (s_bq p) &&
  ep_ok p.
