(* SpecSanity.v — the specification S (Spec/Rules.v) is the trusted reading of the rules of chess; these examples
   validate it against figures every chess programmer knows (Chess Programming Wiki "Perft Results"), evaluated
   inside Coq: the mailbox rule set counts the published numbers of move sequences from the classic test positions
   (start position; "Kiwipete" with castling both ways; position 3 with en passant and discovered checks on the rank;
   position 4 with promotions and underpromotions; position 5), and all these positions are legal-consistent.
   They are examples (tests of S), not theorems about all positions. *)
From Coq Require Import NArith List Bool String.
From LC Require Import Types Strings Spec.Rules Spec.Fen.
Import ListNotations.
Local Open Scope N_scope.

Definition pos (fen : string) : spos := match of_fen false (s2l fen) with Some s => s | None => mkS [] White None None None None None 0 0 end.
Definition counts (fen : string) (depths : list nat) : list N := map (fun d => spec_perft d (pos fen)) depths.

Example spec_startpos : counts "rnbqkbnr/pppppppp/8/8/8/8/PPPPPPPP/RNBQKBNR w KQkq - 0 1" [1;2;3]%nat = [20; 400; 8902]
  /\ legal_consistent false (pos "rnbqkbnr/pppppppp/8/8/8/8/PPPPPPPP/RNBQKBNR w KQkq - 0 1") = true.
Proof. vm_compute. split; reflexivity. Qed.
Example spec_kiwipete : counts "r3k2r/p1ppqpb1/bn2pnp1/3PN3/1p2P3/2N2Q1p/PPPBBPPP/R3K2R w KQkq - 0 1" [1;2]%nat = [48; 2039]
  /\ legal_consistent false (pos "r3k2r/p1ppqpb1/bn2pnp1/3PN3/1p2P3/2N2Q1p/PPPBBPPP/R3K2R w KQkq - 0 1") = true.
Proof. vm_compute. split; reflexivity. Qed.
Example spec_position3 : counts "8/2p5/3p4/KP5r/1R3p1k/8/4P1P1/8 w - - 0 1" [1;2;3]%nat = [14; 191; 2812]
  /\ legal_consistent false (pos "8/2p5/3p4/KP5r/1R3p1k/8/4P1P1/8 w - - 0 1") = true.
Proof. vm_compute. split; reflexivity. Qed.
Example spec_position4 : counts "r3k2r/Pppp1ppp/1b3nbN/nP6/BBP1P3/q4N2/Pp1P2PP/R2Q1RK1 w kq - 0 1" [1;2]%nat = [6; 264]
  /\ legal_consistent false (pos "r3k2r/Pppp1ppp/1b3nbN/nP6/BBP1P3/q4N2/Pp1P2PP/R2Q1RK1 w kq - 0 1") = true.
Proof. vm_compute. split; reflexivity. Qed.
Example spec_position5 : counts "rnbq1k1r/pp1Pbppp/2p5/8/2B5/8/PPP1NnPP/RNBQK2R w KQ - 1 8" [1;2]%nat = [44; 1486]
  /\ legal_consistent false (pos "rnbq1k1r/pp1Pbppp/2p5/8/2B5/8/PPP1NnPP/RNBQK2R w KQ - 1 8") = true.
Proof. vm_compute. split; reflexivity. Qed.

(* Chess960 (Shredder-FEN rights, castling from arbitrary files): the first entries of the library's own
   examples/suite960.cpp, whose numbers come from independent engines *)
Definition pos960 (fen : string) : spos := match of_fen true (s2l fen) with Some s => s | None => mkS [] White None None None None None 0 0 end.
Definition counts960 (fen : string) (depths : list nat) : list N := map (fun d => spec_perft d (pos960 fen)) depths.
Example spec_frc_1 : counts960 "bqnb1rkr/pp3ppp/3ppn2/2p5/5P2/P2P4/NPP1P1PP/BQ1BNRKR w HFhf - 2 9" [1;2]%nat = [21; 528]
  /\ legal_consistent true (pos960 "bqnb1rkr/pp3ppp/3ppn2/2p5/5P2/P2P4/NPP1P1PP/BQ1BNRKR w HFhf - 2 9") = true.
Proof. vm_compute. split; reflexivity. Qed.
Example spec_frc_2 : counts960 "b1q1rrkb/pppppppp/3nn3/8/P7/1PPP4/4PPPP/BQNNRKRB w GE - 1 9" [1;2]%nat = [20; 479]
  /\ legal_consistent true (pos960 "b1q1rrkb/pppppppp/3nn3/8/P7/1PPP4/4PPPP/BQNNRKRB w GE - 1 9") = true.
Proof. vm_compute. split; reflexivity. Qed.
Example spec_frc_3 : counts960 "r1bbnk1r/qpp1pppp/p6n/3p4/1P6/5N1P/P1PPPPP1/RQBBK1NR w ha - 0 9" [1;2]%nat = [23; 728]
  /\ legal_consistent true (pos960 "r1bbnk1r/qpp1pppp/p6n/3p4/1P6/5N1P/P1PPPPP1/RQBBK1NR w ha - 0 9") = true.
Proof. vm_compute. split; reflexivity. Qed.
