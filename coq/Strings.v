(* Strings.v — Coq string literals as the model's byte lists (for examples and witnesses only). *)
From Coq Require Import NArith List Ascii String.
Definition s2l (s : string) : list N := map N_of_ascii (list_ascii_of_string s).
