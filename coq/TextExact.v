(* TextExact.v — C11: the coordinate text of a move identifies it among the moves the rules allow, and what
   parse_move therefore returns on a legal move's own text / move_string. *)
From Coq Require Import NArith ZArith List Bool Lia.
From Coq Require Import ZifyBool ZifyN ZifyNat.
From LC Require Import Bits BitsFacts Types BitboardModel MoveModel MoveFacts PositionModel MovegenModel FenModel GameModel BoardFacts
  Spec.Rules Refine.Abs Refine.Board Refine.Make Refine.Wf Refine.MakeAbs Refine.SpecFits TextFacts.
Import ListNotations.
Local Open Scope N_scope.
Local Strategy 1000 [squares all64 seq].
Ltac Zify.zify_post_hook ::= Z.div_mod_to_equations.

(* ---------- the text determines origin, destination and promotion piece ---------- *)
Lemma cons_inj {A} (x y : A) l l' : x :: l = y :: l' -> x = y /\ l = l'.
Proof. intros H. split; [exact (f_equal (fun l => hd x l) H)|exact (f_equal (@tl A) H)]. Qed.

Lemma sq_string_inj a b : sq_string a = sq_string b -> a = b.
Proof.
  unfold sq_string, sq_file, sq_rank. intros H. apply cons_inj in H. destruct H as [H1 H2]. apply cons_inj in H2. destruct H2 as [H2 _]. lia.
Qed.

Lemma text_decode m1 m2 : legal_promo_field (m_promo m1) = true -> legal_promo_field (m_promo m2) = true ->
  move_text m1 = move_text m2 -> m_from m1 = m_from m2 /\ m_to m1 = m_to m2 /\ m_promo m1 = m_promo m2.
Proof.
  intros H1 H2 E. rewrite (move_text_shape m1 H1), (move_text_shape m2 H2) in E.
  assert (G : forall a b l a' b' l', sq_string a ++ sq_string b ++ l = sq_string a' ++ sq_string b' ++ l' -> a = a' /\ b = b' /\ l = l').
  { intros a b l a' b' l' G. unfold sq_string in G. cbn [app] in G.
    apply cons_inj in G. destruct G as [G1 G]. apply cons_inj in G. destruct G as [G2 G].
    apply cons_inj in G. destruct G as [G3 G]. apply cons_inj in G. destruct G as [G4 G].
    split; [apply sq_string_inj; unfold sq_string; congruence|]. split; [apply sq_string_inj; unfold sq_string; congruence|exact G]. }
  apply G in E. destruct E as (Ea & Eb & El). split; [exact Ea|]. split; [exact Eb|].
  destruct (m_promo m1), (m_promo m2); try discriminate; reflexivity.
Qed.

(* ---------- the shape of the pseudo-legal candidates, completely ---------- *)
Definition fwd (s : side) (q : N) : option N :=
  match s with White => if rankof q <? 7 then Some (q + 8) else None
             | Black => if 0 <? rankof q then Some (q - 8) else None end.
Definition right_of (sp : spos) (mt : mtype) : option N :=
  match s_turn sp, mt with
  | White, Ksc => s_wk sp | White, _ => s_wq sp | Black, Ksc => s_bk sp | Black, _ => s_bq sp end.

Section Shape.
Variable sp : spos.
Notation b := (s_board sp).
Notation s := (s_turn sp).

Inductive pshape : move -> Prop :=
| PS_normal fr to pc : at_sq b fr = Some (s, pc) -> pc <> Pawn -> piece_attacks b s pc fr to = true -> at_sq b to = None ->
    pshape (mkMove Normal fr to pc NoPiece NoPiece)
| PS_capture fr to pc c cp : at_sq b fr = Some (s, pc) -> piece_attacks b s pc fr to = true -> at_sq b to = Some (c, cp) ->
    side_eqb c s = false -> (last_rank s to = false \/ pc <> Pawn) -> pshape (mkMove Capture fr to pc cp NoPiece)
| PS_push fr to : at_sq b fr = Some (s, Pawn) -> fwd s fr = Some to -> at_sq b to = None -> last_rank s to = false ->
    pshape (mkMove Normal fr to Pawn NoPiece NoPiece)
| PS_promo fr to pr : at_sq b fr = Some (s, Pawn) -> fwd s fr = Some to -> at_sq b to = None -> last_rank s to = true ->
    In pr promo_pieces -> pshape (mkMove Promo fr to Pawn NoPiece pr)
| PS_double fr t1 to : at_sq b fr = Some (s, Pawn) -> fwd s fr = Some t1 -> fwd s t1 = Some to -> at_sq b to = None ->
    pshape (mkMove Double fr to Pawn NoPiece NoPiece)
| PS_promocap fr to c cp pr : at_sq b fr = Some (s, Pawn) -> piece_attacks b s Pawn fr to = true -> at_sq b to = Some (c, cp) ->
    side_eqb c s = false -> last_rank s to = true -> In pr promo_pieces -> pshape (mkMove PromoCapture fr to Pawn cp pr)
| PS_ep fr to : at_sq b fr = Some (s, Pawn) -> piece_attacks b s Pawn fr to = true -> at_sq b to = None ->
    pshape (mkMove Enpassant fr to Pawn Pawn NoPiece)
| PS_castle mt ksq rsq : mt = Ksc \/ mt = Qsc -> find_king b s = Some ksq -> right_of sp mt = Some rsq ->
    pshape (mkMove mt ksq rsq King NoPiece NoPiece).

Lemma is_empty_none q : is_empty b q = true -> at_sq b q = None.
Proof. unfold is_empty. destruct (at_sq b q); [discriminate|reflexivity]. Qed.

Lemma piece_shape fr pc m : at_sq b fr = Some (s, pc) -> pc <> Pawn -> In m (piece_candidates sp fr pc) -> pshape m.
Proof.
  intros Hf Hpc H. unfold piece_candidates in H. cbv zeta in H. apply in_flat_map in H. destruct H as [to [_ H]].
  destruct (piece_attacks b s pc fr to) eqn:Eatt; [|destruct H].
  destruct (at_sq b to) as [[c cp]|] eqn:Eto.
  - destruct (negb (side_eqb c s) && negb (piece_eqb cp King)) eqn:Ec; [|destruct H]. destruct H as [<-|[]].
    apply andb_true_iff in Ec. destruct Ec as [Ec _]. apply negb_true_iff in Ec.
    apply (PS_capture fr to pc c cp Hf Eatt Eto Ec). right. exact Hpc.
  - destruct H as [<-|[]]. apply (PS_normal fr to pc Hf Hpc Eatt Eto).
Qed.

Lemma pawn_shape fr m : at_sq b fr = Some (s, Pawn) -> In m (pawn_candidates sp fr) -> pshape m.
Proof.
  intros Hf H. unfold pawn_candidates in H. cbv beta zeta in H. apply in_app_or in H. destruct H as [H|H].
  - change (match s with White => if rankof fr <? 7 then Some (fr + 8) else None
                       | Black => if 0 <? rankof fr then Some (fr - 8) else None end) with (fwd s fr) in H.
    destruct (fwd s fr) as [t1|] eqn:E1; [|destruct H].
    destruct (is_empty b t1) eqn:Ee1; [|destruct H]. apply is_empty_none in Ee1.
    apply in_app_or in H. destruct H as [H|H].
    + destruct (last_rank s t1) eqn:El.
      * apply in_map_iff in H. destruct H as [pr [<- Hpr]]. apply (PS_promo fr t1 pr Hf E1 Ee1 El Hpr).
      * destruct H as [<-|[]]. apply (PS_push fr t1 Hf E1 Ee1 El).
    + match type of H with In _ (if ?c then _ else _) => destruct c; [|destruct H] end.
      change (match s with White => if rankof t1 <? 7 then Some (t1 + 8) else None
                         | Black => if 0 <? rankof t1 then Some (t1 - 8) else None end) with (fwd s t1) in H.
      destruct (fwd s t1) as [t2|] eqn:E2; [|destruct H].
      destruct (is_empty b t2) eqn:Ee2; [|destruct H]. apply is_empty_none in Ee2. destruct H as [<-|[]].
      apply (PS_double fr t1 t2 Hf E1 E2 Ee2).
  - apply in_flat_map in H. destruct H as [to [_ H]].
    destruct (piece_attacks b s Pawn fr to) eqn:Eatt; [|destruct H].
    destruct (at_sq b to) as [[c cp]|] eqn:Eto.
    + destruct (negb (side_eqb c s) && negb (piece_eqb cp King)) eqn:Ec; [|destruct H].
      apply andb_true_iff in Ec. destruct Ec as [Ec _]. apply negb_true_iff in Ec.
      destruct (last_rank s to) eqn:El.
      * apply in_map_iff in H. destruct H as [pr [<- Hpr]]. apply (PS_promocap fr to c cp pr Hf Eatt Eto Ec El Hpr).
      * destruct H as [<-|[]]. apply (PS_capture fr to Pawn c cp Hf Eatt Eto Ec). left. exact El.
    + destruct (s_ep sp) as [e|]; [|destruct H]. destruct (e =? to) eqn:Ee; [|destruct H]. destruct H as [<-|[]].
      apply (PS_ep fr to Hf Eatt Eto).
Qed.

Lemma castle_shape mt m : mt = Ksc \/ mt = Qsc -> In m (castle_candidate sp mt (right_of sp mt)) -> pshape m.
Proof.
  intros Hmt H. unfold castle_candidate in H. cbv zeta in H.
  destruct (right_of sp mt) as [rsq|] eqn:Er; [|destruct H].
  destruct (find_king b s) as [ksq|] eqn:Ek; [|destruct H].
  destruct (castle_dest s mt) as [kd rd].
  match type of H with In _ (if ?c then _ else _) => destruct c; [|destruct H] end. destruct H as [<-|[]].
  apply (PS_castle mt ksq rsq Hmt Ek Er).
Qed.

Theorem pseudo_pshape m : In m (pseudo_moves sp) -> pshape m.
Proof.
  unfold pseudo_moves. cbv zeta. intros H. apply in_app_or in H. destruct H as [H|H].
  - apply in_flat_map in H. destruct H as [fr [_ H]].
    destruct (at_sq b fr) as [[c pc]|] eqn:Ef; [|destruct H].
    destruct (side_eqb c s) eqn:Ec; [|destruct H]. apply side_eqb_eq in Ec. subst c.
    destruct pc; cbv iota in H; try (exfalso; exact (in_nil H));
      try (apply (piece_shape fr _ m Ef); [discriminate|exact H]). apply (pawn_shape fr m Ef H).
  - destruct s eqn:Es; apply in_app_or in H; destruct H as [H|H].
    + apply (castle_shape Ksc m (or_introl eq_refl)). unfold right_of. rewrite Es. exact H.
    + apply (castle_shape Qsc m (or_intror eq_refl)). unfold right_of. rewrite Es. exact H.
    + apply (castle_shape Ksc m (or_introl eq_refl)). unfold right_of. rewrite Es. exact H.
    + apply (castle_shape Qsc m (or_intror eq_refl)). unfold right_of. rewrite Es. exact H.
Qed.
End Shape.

(* ---------- the labels are a function of origin, destination and promotion piece ---------- *)
Definition label (sp : spos) (fr to : N) (pr : piece) : move :=
  let b := s_board sp in let s := s_turn sp in
  match at_sq b fr with
  | Some (_, Pawn) =>
    match at_sq b to with
    | Some (_, cp) => mkMove (if last_rank s to then PromoCapture else Capture) fr to Pawn cp pr
    | None =>
      if fileof fr =? fileof to
      then mkMove (if adiff (rankof fr) (rankof to) =? 2 then Double else if last_rank s to then Promo else Normal) fr to Pawn NoPiece pr
      else mkMove Enpassant fr to Pawn Pawn pr
    end
  | Some (_, King) =>
    match at_sq b to with
    | None => mkMove Normal fr to King NoPiece pr
    | Some (c, cp) =>
      if side_eqb c s then mkMove (if fileof fr <? fileof to then Ksc else Qsc) fr to King NoPiece pr
      else mkMove Capture fr to King cp pr
    end
  | Some (_, pc) =>
    match at_sq b to with
    | None => mkMove Normal fr to pc NoPiece pr
    | Some (_, cp) => mkMove Capture fr to pc cp pr
    end
  | None => mkMove Normal fr to NoPiece NoPiece pr
  end.

Definition rights_ok (dfrc : bool) (sp : spos) : Prop :=
  forall mt rsq, mt = Ksc \/ mt = Qsc -> right_of sp mt = Some rsq ->
    right_ok (s_board sp) (s_turn sp) (match mt with Ksc => true | _ => false end) dfrc (Some rsq) = true.

Lemma lc_rights dfrc sp : legal_consistent dfrc sp = true -> rights_ok dfrc sp.
Proof.
  intros Hlc mt rsq Hmt Hr. destruct (lc_parts _ _ Hlc) as (R0 & R1 & R2 & R3 & _). unfold right_of in Hr.
  destruct (s_turn sp), Hmt as [-> | ->]; rewrite <- Hr; assumption.
Qed.

Lemma find_king_at b s k : find_king b s = Some k -> at_sq b k = Some (s, King).
Proof.
  unfold find_king. intros H. apply find_some in H. destruct H as [_ H].
  destruct (at_sq b k) as [[c pc]|]; [|discriminate]. destruct pc; try discriminate. apply side_eqb_eq in H. subst. reflexivity.
Qed.

Lemma right_ok_facts b s ks dfrc rsq : right_ok b s ks dfrc (Some rsq) = true ->
  exists k, find_king b s = Some k /\ at_sq b rsq = Some (s, Rook) /\
            (if ks then fileof k <? fileof rsq else fileof rsq <? fileof k) = true /\
            rankof k = (match s with White => 0 | Black => 7 end) /\ (dfrc = false -> fileof k = 4).
Proof.
  unfold right_ok. intros H. destruct (find_king b s) as [k|]; [|discriminate]. exists k. cbv zeta in H.
  repeat (apply andb_true_iff in H; let H' := fresh "G" in destruct H as [H H']).
  split; [reflexivity|]. split.
  - destruct (at_sq b rsq) as [[c pc]|]; [|discriminate]. destruct pc; try discriminate. apply side_eqb_eq in G1. subst. reflexivity.
  - split; [exact G0|]. split; [apply N.eqb_eq in H; exact H|]. intros ->. apply andb_true_iff in G. destruct G as [G _]. apply N.eqb_eq in G. exact G.
Qed.

Lemma fwd_geo s fr to : fwd s fr = Some to -> fileof fr = fileof to /\ adiff (rankof fr) (rankof to) = 1.
Proof.
  unfold fwd, fileof, rankof, adiff. destruct s.
  - destruct (fr / 8 <? 7) eqn:E; [|discriminate]. intros H. inversion H; subst. destruct (fr / 8 <? (fr + 8) / 8) eqn:E2; lia.
  - destruct (0 <? fr / 8) eqn:E; [|discriminate]. intros H. inversion H; subst. destruct (fr / 8 <? (fr - 8) / 8) eqn:E2; lia.
Qed.
Lemma fwd2_geo s fr t1 to : fwd s fr = Some t1 -> fwd s t1 = Some to -> fileof fr = fileof to /\ adiff (rankof fr) (rankof to) = 2.
Proof.
  unfold fwd, fileof, rankof, adiff. destruct s.
  - destruct (fr / 8 <? 7) eqn:E; [|discriminate]. intros H. inversion H; subst.
    destruct ((fr + 8) / 8 <? 7) eqn:E1; [|discriminate]. intros H1. inversion H1; subst. destruct (fr / 8 <? (fr + 8 + 8) / 8) eqn:E2; lia.
  - destruct (0 <? fr / 8) eqn:E; [|discriminate]. intros H. inversion H; subst.
    destruct (0 <? (fr - 8) / 8) eqn:E1; [|discriminate]. intros H1. inversion H1; subst. destruct (fr / 8 <? (fr - 8 - 8) / 8) eqn:E2; lia.
Qed.
Lemma pawn_att_file b s fr to : piece_attacks b s Pawn fr to = true -> (fileof fr =? fileof to) = false.
Proof.
  unfold piece_attacks. cbv zeta. intros H. apply andb_true_iff in H. destruct H as [H _]. apply N.eqb_eq in H.
  unfold adiff in H. destruct (fileof fr <? fileof to) eqn:E; lia.
Qed.

Lemma pshape_promo sp m : pshape sp m -> legal_promo_field (m_promo m) = true.
Proof.
  intros H. destruct H; cbn [m_promo]; try reflexivity;
    match goal with Hp : In _ promo_pieces |- _ => unfold promo_pieces in Hp; cbn [In] in Hp; repeat destruct Hp as [Hp|Hp]; try contradiction; subst; reflexivity end.
Qed.

Lemma label_eq dfrc sp m : rights_ok dfrc sp -> pshape sp m -> m = label sp (m_from m) (m_to m) (m_promo m).
Proof.
  intros HR H. destruct H; cbn [m_from m_to m_promo]; unfold label; cbv zeta.
  - rewrite H, H2. destruct pc; try reflexivity. contradiction H0; reflexivity.
  - rewrite H, H1. destruct pc; rewrite ?H2; try reflexivity. destruct H3 as [->|H3]; [reflexivity|contradiction H3; reflexivity].
  - rewrite H, H1. destruct (fwd_geo _ _ _ H0) as [E1 E2]. rewrite E1, N.eqb_refl, E2, H2. reflexivity.
  - rewrite H, H1. destruct (fwd_geo _ _ _ H0) as [E1 E2]. rewrite E1, N.eqb_refl, E2, H2. reflexivity.
  - rewrite H, H2. destruct (fwd2_geo _ _ _ _ H0 H1) as [E1 E2]. rewrite E1, N.eqb_refl, E2. reflexivity.
  - rewrite H, H1, H3. reflexivity.
  - rewrite H, H1, (pawn_att_file _ _ _ _ H0). reflexivity.
  - pose proof (HR mt rsq H H1) as Hok. apply right_ok_facts in Hok. destruct Hok as (k & Ek & Er & Hf & _).
    rewrite H0 in Ek. inversion Ek; subst k. rewrite (find_king_at _ _ _ H0), Er, side_eqb_refl.
    destruct H as [-> | ->].
    + rewrite Hf. reflexivity.
    + replace (fileof ksq <? fileof rsq) with false by lia. reflexivity.
Qed.

(* the text identifies the move among the pseudo-legal candidates, hence among the legal moves of the rules *)
Theorem pseudo_text_injective dfrc sp : legal_consistent dfrc sp = true ->
  forall m1 m2, In m1 (pseudo_moves sp) -> In m2 (pseudo_moves sp) -> move_text m1 = move_text m2 -> m1 = m2.
Proof.
  intros Hlc m1 m2 H1 H2 E. apply pseudo_pshape in H1. apply pseudo_pshape in H2.
  destruct (text_decode m1 m2 (pshape_promo _ _ H1) (pshape_promo _ _ H2) E) as (Ef & Et & Ep).
  rewrite (label_eq dfrc sp m1 (lc_rights _ _ Hlc) H1), (label_eq dfrc sp m2 (lc_rights _ _ Hlc) H2), Ef, Et, Ep. reflexivity.
Qed.

Theorem spec_text_injective_sp dfrc sp : legal_consistent dfrc sp = true ->
  forall m1 m2, In m1 (spec_moves sp) -> In m2 (spec_moves sp) -> move_text m1 = move_text m2 -> m1 = m2.
Proof.
  intros Hlc m1 m2 H1 H2. unfold spec_moves in H1, H2. apply filter_In in H1. apply filter_In in H2.
  apply (pseudo_text_injective dfrc sp Hlc m1 m2 (proj1 H1) (proj1 H2)).
Qed.

(* TARGET 1 *)
Theorem spec_text_injective dfrc p : wf p = true -> rooks_ok p -> legal_consistent dfrc (abs p) = true ->
  forall m1 m2, In m1 (spec_moves (abs p)) -> In m2 (spec_moves (abs p)) -> move_text m1 = move_text m2 -> m1 = m2.
Proof. intros _ _ Hlc. apply (spec_text_injective_sp dfrc (abs p) Hlc). Qed.

(* ---------- castling: one move per type; a king "move" that is no king step is castling ---------- *)
Lemma pshape_castle sp m mt : pshape sp m -> m_type m = mt -> mt = Ksc \/ mt = Qsc ->
  exists ksq rsq, find_king (s_board sp) (s_turn sp) = Some ksq /\ right_of sp mt = Some rsq /\
                  m = mkMove mt ksq rsq King NoPiece NoPiece.
Proof. intros H. destruct H; cbn [m_type]; intros <- [E|E]; try discriminate; exists ksq, rsq; repeat split; assumption. Qed.

Lemma castle_unique sp m1 m2 : pshape sp m1 -> pshape sp m2 -> m_type m1 = m_type m2 ->
  m_type m1 = Ksc \/ m_type m1 = Qsc -> m1 = m2.
Proof.
  intros H1 H2 E Hc.
  destruct (pshape_castle sp m1 _ H1 eq_refl Hc) as (k1 & r1 & A1 & B1 & E1).
  destruct (pshape_castle sp m2 _ H2 (eq_sym E) Hc) as (k2 & r2 & A2 & B2 & E2).
  rewrite E1, E2. congruence.
Qed.

Lemma king_move_type dfrc sp m c : rights_ok dfrc sp -> pshape sp m ->
  at_sq (s_board sp) (m_from m) = Some (c, King) ->
  piece_attacks (s_board sp) (s_turn sp) King (m_from m) (m_to m) = false ->
  m_type m = if fileof (m_from m) <? fileof (m_to m) then Ksc else Qsc.
Proof.
  intros HR H. destruct H; cbn [m_from m_to m_type]; intros Hk Hna; try congruence.
  pose proof (HR mt rsq H H1) as Hok. apply right_ok_facts in Hok. destruct Hok as (k & Ek & Er & Hf & _).
  rewrite H0 in Ek. inversion Ek; subst k. destruct H as [-> | ->].
  - rewrite Hf. reflexivity.
  - replace (fileof ksq <? fileof rsq) with false by lia. reflexivity.
Qed.

(* ---------- parse_move ---------- *)
Definition ksc_flag (p : position) (s : str) : bool :=
  (str_eqb s s_e1g1 && (piece_eqb (piece_on p 4) King && side_eqb (turn p) White)) ||
  (str_eqb s s_e8g8 && (piece_eqb (piece_on p 60) King && side_eqb (turn p) Black)).
Definition qsc_flag (p : position) (s : str) : bool :=
  (str_eqb s s_e1c1 && (piece_eqb (piece_on p 4) King && side_eqb (turn p) White)) ||
  (str_eqb s s_e8c8 && (piece_eqb (piece_on p 60) King && side_eqb (turn p) Black)).
Definition parse_pred (p : position) (s : str) (m : move) : bool :=
  (ksc_flag p s && mtype_eqb (m_type m) Ksc) || (qsc_flag p s && mtype_eqb (m_type m) Qsc) || str_eqb (move_text m) s.
Lemma parse_move_unfold p s : parse_move p s = find (parse_pred p s) (legal_moves p).
Proof. reflexivity. Qed.

Lemma find_unique {A} (f : A -> bool) l x : In x l -> f x = true -> (forall y, In y l -> f y = true -> y = x) -> find f l = Some x.
Proof.
  intros Hin Hf Hu. destruct (find f l) as [y|] eqn:E.
  - apply find_some in E. destruct E as [E1 E2]. f_equal. apply Hu; assumption.
  - pose proof (find_none _ _ E x Hin) as H. congruence.
Qed.

Lemma flag_cases (p : position) s a1 a8 : 
  (str_eqb s a1 && (piece_eqb (piece_on p 4) King && side_eqb (turn p) White)) ||
  (str_eqb s a8 && (piece_eqb (piece_on p 60) King && side_eqb (turn p) Black)) = true ->
  (s = a1 /\ piece_on p 4 = King /\ turn p = White) \/ (s = a8 /\ piece_on p 60 = King /\ turn p = Black).
Proof.
  intros H. apply orb_true_iff in H. destruct H as [H|H]; apply andb_true_iff in H; destruct H as [E1 E2];
    apply str_eqb_eq in E1; apply andb_true_iff in E2; destruct E2 as [E2 E3]; apply piece_eqb_eq in E2; apply side_eqb_eq in E3; [left|right]; tauto.
Qed.

Lemma flags_excl p s : ksc_flag p s = true -> qsc_flag p s = true -> False.
Proof.
  intros H1 H2. apply flag_cases in H1. apply flag_cases in H2.
  destruct H1 as [(E1 & _ & T1)|(E1 & _ & T1)], H2 as [(E2 & _ & T2)|(E2 & _ & T2)]; rewrite E1 in E2; try discriminate E2; congruence.
Qed.

Lemma parse_pred_cases p s m : parse_pred p s m = true ->
  (ksc_flag p s = true /\ m_type m = Ksc) \/ (qsc_flag p s = true /\ m_type m = Qsc) \/ move_text m = s.
Proof.
  unfold parse_pred. intros H. apply orb_true_iff in H. destruct H as [H|H]; [apply orb_true_iff in H; destruct H as [H|H]|].
  - left. apply andb_true_iff in H. destruct H as [H1 H2]. apply mtype_eqb_eq in H2. tauto.
  - right. left. apply andb_true_iff in H. destruct H as [H1 H2]. apply mtype_eqb_eq in H2. tauto.
  - right. right. apply str_eqb_eq. exact H.
Qed.

Lemma piece_on_cell p q : q < 64 -> piece_on p q = King -> exists c, at_sq (abs_board p) q = Some (c, King).
Proof. intros Hq H. rewrite at_sq_abs_board by exact Hq. unfold cell_of. rewrite H. eexists. reflexivity. Qed.
Lemma cell_piece_on p q c pc : q < 64 -> at_sq (abs_board p) q = Some (c, pc) -> piece_on p q = pc.
Proof. intros Hq. rewrite at_sq_abs_board by exact Hq. unfold cell_of. destruct (piece_on p q); intros H; inversion H; reflexivity. Qed.

Section Parse.
Variable p : position.
Variable dfrc : bool.
Hypothesis Hlc : legal_consistent dfrc (abs p) = true.
Hypothesis Hgen : forall m, In m (legal_moves p) <-> In m (spec_moves (abs p)).

Lemma spec_pshape m : In m (spec_moves (abs p)) -> pshape (abs p) m.
Proof. intros H. unfold spec_moves in H. apply filter_In in H. apply pseudo_pshape. exact (proj1 H). Qed.

(* a legal move whose text is from-square fr (holding a king), to-square to, not a king step apart, is the castling
   move of the side given by the direction *)
Lemma alias_type m fr to : In m (spec_moves (abs p)) -> move_text m = sq_string fr ++ sq_string to -> fr < 64 ->
  piece_on p fr = King -> (N.max (adiff (fileof fr) (fileof to)) (adiff (rankof fr) (rankof to)) =? 1) = false ->
  m_type m = if fileof fr <? fileof to then Ksc else Qsc.
Proof.
  intros Hin Ht Hfr Hk Hna. pose proof (spec_pshape m Hin) as Hs.
  destruct (text_decode m (mkMove Normal fr to Pawn Pawn NoPiece) (pshape_promo _ _ Hs) eq_refl) as (Ef & Et & _).
  { rewrite Ht. unfold move_text, move_text_with. cbn [m_from m_to m_promo promo_letter]. rewrite app_nil_r. reflexivity. }
  cbn [m_from m_to] in Ef, Et. destruct (piece_on_cell p fr Hfr Hk) as [c Hc].
  rewrite <- Ef, <- Et. apply (king_move_type dfrc (abs p) m c (lc_rights _ _ Hlc) Hs).
  - cbn [abs s_board]. rewrite Ef. exact Hc.
  - rewrite Ef, Et. unfold piece_attacks. exact Hna.
Qed.

Lemma alias_ksc m s : In m (spec_moves (abs p)) -> move_text m = s -> ksc_flag p s = true -> m_type m = Ksc.
Proof.
  intros Hin Ht Hf. apply flag_cases in Hf. destruct Hf as [(E & Hk & _)|(E & Hk & _)]; subst s.
  - apply (alias_type m 4 6 Hin E); [lia|exact Hk|reflexivity].
  - apply (alias_type m 60 62 Hin E); [lia|exact Hk|reflexivity].
Qed.
Lemma alias_qsc m s : In m (spec_moves (abs p)) -> move_text m = s -> qsc_flag p s = true -> m_type m = Qsc.
Proof.
  intros Hin Ht Hf. apply flag_cases in Hf. destruct Hf as [(E & Hk & _)|(E & Hk & _)]; subst s.
  - apply (alias_type m 4 2 Hin E); [lia|exact Hk|reflexivity].
  - apply (alias_type m 60 58 Hin E); [lia|exact Hk|reflexivity].
Qed.

(* parse_move returns m itself on every string that names m (as its text or as an applicable alias) *)
Theorem parse_exact s m : In m (legal_moves p) -> parse_pred p s m = true -> parse_move p s = Some m.
Proof.
  intros Hin Hp. rewrite parse_move_unfold. apply find_unique; [exact Hin|exact Hp|].
  intros m' Hin' Hp'. apply Hgen in Hin. apply Hgen in Hin'.
  pose proof (spec_pshape m Hin) as Hs. pose proof (spec_pshape m' Hin') as Hs'.
  apply parse_pred_cases in Hp. apply parse_pred_cases in Hp'.
  destruct Hp' as [(F' & T')|[(F' & T')|T']], Hp as [(F & T)|[(F & T)|T]].
  - apply (castle_unique (abs p) m' m Hs' Hs); [congruence|left; exact T'].
  - exfalso. exact (flags_excl p s F' F).
  - pose proof (alias_ksc m s Hin T F') as Tm. apply (castle_unique (abs p) m' m Hs' Hs); [congruence|left; exact T'].
  - exfalso. exact (flags_excl p s F F').
  - apply (castle_unique (abs p) m' m Hs' Hs); [congruence|right; exact T'].
  - pose proof (alias_qsc m s Hin T F') as Tm. apply (castle_unique (abs p) m' m Hs' Hs); [congruence|right; exact T'].
  - pose proof (alias_ksc m' s Hin' T' F) as Tm. apply (castle_unique (abs p) m' m Hs' Hs); [congruence|left; exact Tm].
  - pose proof (alias_qsc m' s Hin' T' F) as Tm. apply (castle_unique (abs p) m' m Hs' Hs); [congruence|right; exact Tm].
  - apply (spec_text_injective_sp dfrc (abs p) Hlc m' m Hin' Hin). congruence.
Qed.

Theorem parse_own_text_sec m : In m (legal_moves p) -> parse_move p (move_text m) = Some m.
Proof.
  intros Hin. apply (parse_exact _ m Hin). unfold parse_pred.
  replace (str_eqb (move_text m) (move_text m)) with true by (symmetry; apply str_eqb_eq; reflexivity). apply orb_true_r.
Qed.

(* in a standard-chess position the castling king stands on e1 / e8 *)
Lemma std_king m : dfrc = false -> In m (spec_moves (abs p)) -> m_type m = Ksc \/ m_type m = Qsc ->
  piece_on p (match turn p with White => 4 | Black => 60 end) = King.
Proof.
  intros Hd Hin Hc. pose proof (spec_pshape m Hin) as Hs.
  destruct (pshape_castle _ m _ Hs eq_refl Hc) as (k & r & A & B & _).
  pose proof (lc_rights _ _ Hlc (m_type m) r Hc B) as Hok. apply right_ok_facts in Hok.
  destruct Hok as (k' & Ek & _ & _ & Hrk & Hfl). rewrite A in Ek. inversion Ek; subst k'. specialize (Hfl Hd).
  apply find_king_at in A. cbn [abs s_board s_turn] in A, Hrk. unfold rankof in Hrk. unfold fileof in Hfl.
  destruct (turn p).
  - assert (k = 4) by lia. subst k. apply (cell_piece_on p 4 _ _ ltac:(lia) A).
  - assert (k = 60) by lia. subst k. apply (cell_piece_on p 60 _ _ ltac:(lia) A).
Qed.

Theorem parse_move_string_sec m : In m (legal_moves p) -> parse_move p (move_string p m dfrc) = Some m.
Proof.
  intros Hin. assert (Ed : dfrc = true \/ dfrc = false) by (destruct dfrc; tauto).
  destruct Ed as [Ed|Ed]; rewrite Ed at 1; [rewrite move_string_dfrc; apply parse_own_text_sec; exact Hin|].
  rewrite move_string_std. pose proof (proj1 (Hgen m) Hin) as Hsp.
  destruct (m_type m) eqn:Et; try (apply parse_own_text_sec; exact Hin).
  - pose proof (std_king m Ed Hsp (or_introl Et)) as Hk.
    destruct (turn p) eqn:Eturn; apply (parse_exact _ m Hin); unfold parse_pred, ksc_flag; rewrite Et, Eturn, Hk; reflexivity.
  - pose proof (std_king m Ed Hsp (or_intror Et)) as Hk.
    destruct (turn p) eqn:Eturn; apply (parse_exact _ m Hin); unfold parse_pred, ksc_flag, qsc_flag; rewrite Et, Eturn, Hk; reflexivity.
Qed.
End Parse.

(* TARGET 2: parse_move of a legal move's own text returns that move (true as stated, also when the text coincides
   with an alias string: then the move is itself the castling move the alias names) *)
Theorem parse_own_text dfrc p : wf p = true -> rooks_ok p -> legal_consistent dfrc (abs p) = true ->
  (forall m, In m (legal_moves p) <-> In m (spec_moves (abs p))) ->
  forall m, In m (legal_moves p) -> parse_move p (move_text m) = Some m.
Proof. intros _ _ Hlc Hgen. exact (parse_own_text_sec p dfrc Hlc Hgen). Qed.

(* TARGET 3: ... and so does parse_move of move_string in the mode of the position's domain *)
Theorem parse_move_string dfrc p : wf p = true -> rooks_ok p -> legal_consistent dfrc (abs p) = true ->
  (forall m, In m (legal_moves p) <-> In m (spec_moves (abs p))) ->
  forall m, In m (legal_moves p) -> parse_move p (move_string p m dfrc) = Some m.
Proof. intros _ _ Hlc Hgen. exact (parse_move_string_sec p dfrc Hlc Hgen). Qed.

(* standard-mode strings of Chess960 positions are accepted too: e1g1 names the king-side castling move whenever a
   king stands on e1 (the alias), e.g. for king e1 / rook h1 the move whose own text is e1h1 *)
Theorem parse_alias dfrc p : wf p = true -> rooks_ok p -> legal_consistent dfrc (abs p) = true ->
  (forall m, In m (legal_moves p) <-> In m (spec_moves (abs p))) ->
  forall m s, In m (legal_moves p) ->
    (m_type m = Ksc /\ ksc_flag p s = true) \/ (m_type m = Qsc /\ qsc_flag p s = true) -> parse_move p s = Some m.
Proof.
  intros _ _ Hlc Hgen m s Hin H. apply (parse_exact p dfrc Hlc Hgen s m Hin). unfold parse_pred.
  destruct H as [[-> ->]|[-> ->]]; [reflexivity|]. cbn [mtype_eqb mtype_to_N N.eqb andb]. apply orb_true_iff. left. apply orb_true_r.
Qed.

(* TARGET 4: rejection.  For EVERY position: a string that is neither the text nor the standard-mode string of a
   generated move is rejected. *)
Theorem parse_rejects_strings p s :
  (forall m, In m (legal_moves p) -> move_text m <> s /\ move_string p m false <> s) -> parse_move p s = None.
Proof.
  intros Hn. destruct (parse_move p s) as [m|] eqn:E; [|reflexivity]. exfalso.
  destruct (parse_move_sound p s m E) as [Hin H]. destruct (Hn m Hin) as [N1 N2]. rewrite move_string_std in N2.
  destruct H as [H|[[T [(H & _ & Tu)|(H & _ & Tu)]]|[T [(H & _ & Tu)|(H & _ & Tu)]]]]; try (exact (N1 H)); rewrite T, Tu in N2; apply N2; symmetry; exact H.
Qed.

(* as the property states it, for standard-chess positions (mode = dfrc = false) *)
Theorem parse_rejects_std p : wf p = true -> rooks_ok p -> legal_consistent false (abs p) = true ->
  forall s, (forall m, In m (legal_moves p) -> move_text m <> s /\ move_string p m false <> s) -> parse_move p s = None.
Proof. intros _ _ _ s. apply parse_rejects_strings. Qed.

(* exact characterisation of rejection, every position *)
Theorem parse_none_iff p s : parse_move p s = None <-> forall m, In m (legal_moves p) -> parse_pred p s m = false.
Proof.
  rewrite parse_move_unfold. split.
  - intros H m Hin. exact (find_none _ _ H m Hin).
  - intros H. destruct (find (parse_pred p s) (legal_moves p)) as [m|] eqn:E; [|reflexivity].
    apply find_some in E. destruct E as [E1 E2]. rewrite (H m E1) in E2. discriminate.
Qed.

(* ---------- the rejection statement with Chess960-mode strings is FALSE: counterexamples ---------- *)
From Coq Require Import String.
From LC Require Import ZobristModel Strings.
From LC.Gen Require Import ZobristKeys.

Definition no_string_matches (p : position) (mode : bool) (s : str) : bool :=
  forallb (fun m => negb (str_eqb (move_text m) s) && negb (str_eqb (move_string p m mode) s)) (legal_moves p).
Lemma no_string_matches_spec p mode s : no_string_matches p mode s = true ->
  forall m, In m (legal_moves p) -> move_text m <> s /\ move_string p m mode <> s.
Proof.
  unfold no_string_matches. intros H m Hin. rewrite forallb_forall in H. specialize (H m Hin). cbv beta in H.
  apply andb_true_iff in H. destruct H as [H1 H2]. apply negb_true_iff in H1. apply negb_true_iff in H2.
  split; intros E; apply str_eqb_eq in E; congruence.
Qed.

(* (a) the ordinary one: Chess960 mode, king e1, rook h1.  The castling move's text and Chess960 string are "e1h1";
   no legal move prints as "e1g1" in that mode, yet parse_move accepts the alias "e1g1" and returns the castling move. *)
Definition cx_a : position := set_fen zk (s2l "4k3/8/8/8/8/8/8/4K2R w K - 0 1"%string) true.
Example cx_a_facts :
  wf cx_a = true /\ (r0 cx_a <? 64) && (r1 cx_a <? 64) && (r2 cx_a <? 64) && (r3 cx_a <? 64) = true /\
  legal_consistent true (abs cx_a) = true /\
  no_string_matches cx_a true s_e1g1 = true /\
  parse_move cx_a s_e1g1 = Some (mkMove Ksc 4 7 King NoPiece NoPiece).
Proof. vm_compute. repeat split; reflexivity. Qed.

(* (b) parse_move tests "a king on e1" without looking at its colour: black king e1, white king g1, rook h1, white to
   move.  "e1g1" is no legal move's text or string in ANY sense of the position (nothing white stands on e1), but it
   is accepted and returns the castling move g1h1.  (Its standard-mode move_string is "e1g1" by move_string's
   definition, which is why parse_rejects_strings is not contradicted.) *)
Definition cx_b : position := set_fen zk (s2l "8/8/8/8/8/8/8/4k1KR w K - 0 1"%string) true.
Example cx_b_facts :
  wf cx_b = true /\ (r0 cx_b <? 64) && (r1 cx_b <? 64) && (r2 cx_b <? 64) && (r3 cx_b <? 64) = true /\
  legal_consistent true (abs cx_b) = true /\
  no_string_matches cx_b true s_e1g1 = true /\
  parse_move cx_b s_e1g1 = Some (mkMove Ksc 6 7 King NoPiece NoPiece).
Proof. vm_compute. repeat split; reflexivity. Qed.

Theorem parse_rejects_dfrc_refuted :
  ~ (forall p s, wf p = true -> rooks_ok p -> legal_consistent true (abs p) = true ->
       (forall m, In m (legal_moves p) -> move_text m <> s /\ move_string p m true <> s) -> parse_move p s = None).
Proof.
  intros H. destruct cx_a_facts as (Hwf & Hr & Hlc & Hno & Hp).
  rewrite (H cx_a s_e1g1 Hwf) in Hp; [discriminate| |exact Hlc|exact (no_string_matches_spec _ _ _ Hno)].
  repeat (apply andb_true_iff in Hr; let H' := fresh "R" in destruct Hr as [Hr H']).
  unfold rooks_ok. repeat split; apply N.ltb_lt; assumption.
Qed.

Print Assumptions spec_text_injective.
Print Assumptions parse_own_text.
Print Assumptions parse_move_string.
Print Assumptions parse_alias.
Print Assumptions parse_rejects_strings.
Print Assumptions parse_rejects_std.
Print Assumptions parse_none_iff.
Print Assumptions parse_rejects_dfrc_refuted.
