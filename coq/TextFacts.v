(* TextFacts.v — parse_move / move_string (C11): what follows from the definitions. *)
From Coq Require Import NArith List Bool Lia.
From LC Require Import Bits Types BitboardModel MoveModel PositionModel MovegenModel FenModel GameModel MoveFacts.
Import ListNotations.
Local Open Scope N_scope.

Lemma str_eqb_eq a b : str_eqb a b = true <-> a = b.
Proof.
  revert b. induction a as [|x a IH]; destruct b as [|y b]; cbn; split; intros H; try reflexivity; try discriminate.
  - apply andb_true_iff in H. destruct H as [H1 H2]. apply N.eqb_eq in H1. apply IH in H2. subst. reflexivity.
  - inversion H; subst. rewrite N.eqb_refl. apply IH. reflexivity.
Qed.

(* whatever parse_move returns is a generated legal move whose text is the string, or the castling move named by a
   standard alias with the king on e1/e8 and the right side to move *)
Theorem parse_move_sound p s m : parse_move p s = Some m ->
  In m (legal_moves p) /\
  (move_text m = s \/
   (m_type m = Ksc /\ ((s = s_e1g1 /\ piece_on p 4 = King /\ turn p = White) \/ (s = s_e8g8 /\ piece_on p 60 = King /\ turn p = Black))) \/
   (m_type m = Qsc /\ ((s = s_e1c1 /\ piece_on p 4 = King /\ turn p = White) \/ (s = s_e8c8 /\ piece_on p 60 = King /\ turn p = Black)))).
Proof.
  unfold parse_move. intros H. apply find_some in H. destruct H as [Hin Hb]. split; [exact Hin|].
  apply orb_true_iff in Hb. destruct Hb as [Hb|Hb].
  - apply orb_true_iff in Hb. destruct Hb as [Hb|Hb]; apply andb_true_iff in Hb; destruct Hb as [Ha Ht]; apply mtype_eqb_eq in Ht.
    + right. left. split; [exact Ht|]. apply orb_true_iff in Ha. destruct Ha as [Ha|Ha]; apply andb_true_iff in Ha; destruct Ha as [E1 E2];
        apply str_eqb_eq in E1; apply andb_true_iff in E2; destruct E2 as [E2 E3]; apply piece_eqb_eq in E2; apply side_eqb_eq in E3; [left|right]; tauto.
    + right. right. split; [exact Ht|]. apply orb_true_iff in Ha. destruct Ha as [Ha|Ha]; apply andb_true_iff in Ha; destruct Ha as [E1 E2];
        apply str_eqb_eq in E1; apply andb_true_iff in E2; destruct E2 as [E2 E3]; apply piece_eqb_eq in E2; apply side_eqb_eq in E3; [left|right]; tauto.
  - left. apply str_eqb_eq. exact Hb.
Qed.

(* a string that is neither the text of a generated move nor an applicable alias is rejected *)
Theorem parse_move_rejects p s :
  (forall m, In m (legal_moves p) -> move_text m <> s) ->
  s <> s_e1g1 -> s <> s_e1c1 -> s <> s_e8g8 -> s <> s_e8c8 -> parse_move p s = None.
Proof.
  intros Hn A1 A2 A3 A4. destruct (parse_move p s) as [m|] eqn:E; [|reflexivity]. exfalso.
  destruct (parse_move_sound p s m E) as [Hin [H|[[_ [[H _]|[H _]]]|[_ [[H _]|[H _]]]]]]; try congruence. exact (Hn m Hin H).
Qed.

(* the text of a generated move is accepted, and the move returned prints the same text (or is the castling move
   an alias names) *)
Theorem parse_move_accepts_text p m : In m (legal_moves p) -> exists m', parse_move p (move_text m) = Some m'.
Proof.
  intros Hin. unfold parse_move.
  destruct (find _ (legal_moves p)) as [m'|] eqn:E; [exists m'; reflexivity|].
  exfalso. pose proof (find_none _ _ E m Hin) as H. cbv beta in H.
  assert (str_eqb (move_text m) (move_text m) = true) by (apply str_eqb_eq; reflexivity).
  rewrite H0, orb_true_r in H. discriminate.
Qed.

(* move_string: Chess960 mode prints the move's own text; standard mode prints castling as e1g1/e1c1/e8g8/e8c8 *)
Theorem move_string_dfrc p m : move_string p m true = move_text m. Proof. reflexivity. Qed.
Theorem move_string_std p m : move_string p m false =
  match m_type m, turn p with
  | Ksc, White => s_e1g1 | Ksc, Black => s_e8g8 | Qsc, White => s_e1c1 | Qsc, Black => s_e8c8 | _, _ => move_text m end.
Proof. unfold move_string. destruct (m_type m), (turn p); reflexivity. Qed.

(* the text is origin, destination and a lower-case promotion letter *)
Theorem move_text_shape m : legal_promo_field (m_promo m) = true ->
  move_text m = sq_string (m_from m) ++ sq_string (m_to m) ++
                match m_promo m with Knight => [110] | Bishop => [98] | Rook => [114] | Queen => [113] | _ => [] end.
Proof. intros H. apply (move_text_spec std_promo_letters m eq_refl H). Qed.
