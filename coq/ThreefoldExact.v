(* ThreefoldExact.v — C09: along every game played from a start position, threefold() = "the current position has occurred
   at least three times since the last capture, pawn move, null move or set_fen" (Spec/Game.spec_threefold), under the
   explicit hypothesis that the Zobrist keys do not collide on the positions of the current reversible stretch. *)
From Coq Require Import NArith List Bool Lia.
From Coq Require Import ZifyBool ZifyN ZifyNat.
From LC Require Import Bits BitsFacts Types BitboardModel MoveModel MoveFacts ZobristModel PositionModel MakeModel GameModel
  BoardFacts MakeFacts ThreefoldFacts Spec.Rules Spec.Game Refine.Abs Refine.Board Refine.Make Refine.Wf Refine.MakeAbs
  Refine.SpecFits HashFacts KingFacts FenModel FenFacts.
Import ListNotations.
Local Open Scope N_scope.
Local Strategy 1000 [squares all64 seq].

(* ================= 1. same_core is equality of the "core" of a position ================= *)
Definition core (s : spos) : sboard * side * bool * bool * bool * bool * option N :=
  (s_board s, s_turn s, held (s_wk s), held (s_wq s), held (s_bk s), held (s_bq s), s_ep s).

Lemma cell_eqb_iff a b : cell_eqb a b = true <-> a = b.
Proof.
  destruct a as [[s1 p1]|], b as [[s2 p2]|]; cbn [cell_eqb]; split; intros H; try discriminate; try reflexivity.
  - apply andb_true_iff in H. destruct H as [H1 H2]. apply side_eqb_eq in H1. apply piece_eqb_true in H2. subst. reflexivity.
  - inversion H; subst. rewrite piece_eqb_refl, side_eqb_refl. reflexivity.
Qed.
Lemma board_eqb_iff a b : board_eqb a b = true <-> a = b.
Proof.
  revert b. induction a as [|x a IH]; intros [|y b]; cbn [board_eqb]; split; intros H; try discriminate; try reflexivity.
  - apply andb_true_iff in H. destruct H as [H1 H2]. apply cell_eqb_iff in H1. apply IH in H2. subst. reflexivity.
  - inversion H; subst. apply andb_true_iff. split; [apply cell_eqb_iff; reflexivity|apply IH; reflexivity].
Qed.
Lemma opt_eqb_iff a b : opt_eqb a b = true <-> a = b.
Proof.
  destruct a as [x|], b as [y|]; cbn [opt_eqb]; split; intros H; try discriminate; try reflexivity.
  - apply N.eqb_eq in H. subst. reflexivity.
  - inversion H. apply N.eqb_refl.
Qed.

Lemma same_core_iff a b : same_core a b = true <-> core a = core b.
Proof.
  unfold same_core, core. split; intros H.
  - repeat (apply andb_true_iff in H; let H' := fresh "H" in destruct H as [H H']).
    apply board_eqb_iff in H. apply side_eqb_eq in H5. apply eqb_prop in H4, H3, H2, H1. apply opt_eqb_iff in H0.
    rewrite H, H5, H4, H3, H2, H1, H0. reflexivity.
  - inversion H as [[E1 E2 E3 E4 E5 E6 E7]].
    repeat (apply andb_true_iff; split); try (apply eqb_reflx).
    + apply board_eqb_iff. reflexivity.
    + apply side_eqb_refl.
    + apply opt_eqb_iff. reflexivity.
Qed.
Lemma same_core_sym a b : same_core a b = same_core b a.
Proof.
  destruct (same_core a b) eqn:E1, (same_core b a) eqn:E2; try reflexivity.
  - apply same_core_iff in E1. symmetry in E1. apply same_core_iff in E1. congruence.
  - apply same_core_iff in E2. symmetry in E2. apply same_core_iff in E2. congruence.
Qed.
Lemma same_core_trans3 c a b : same_core c a = true -> same_core c b = true -> same_core a b = true.
Proof. intros H1 H2. apply same_core_iff in H1, H2. apply same_core_iff. congruence. Qed.

(* ================= 2. the Zobrist hash of a specification position ================= *)
Section Key.
Variable K : zkeys.

Definition opt_sq (o : option N) : N := match o with Some e => e | None => OffSq end.
(* the right-hand side of calculate_hash_rep, read off a spec position: placement, side to move, which of the four
   rights are held, en-passant square *)
Definition key_hash (s : spos) : N :=
  N.lxor (N.lxor (N.lxor (turn_part K (s_turn s)) (board_hash K (at_sq (s_board s))))
                 (castle_part K (held (s_wk s)) (held (s_wq s)) (held (s_bk s)) (held (s_bq s))))
         (ep_part K (opt_sq (s_ep s))).

Lemma held_if (c : bool) (r : N) : held (if c then Some r else None) = c.
Proof. destruct c; reflexivity. Qed.

Theorem hash_abs p : wf p = true -> hash_ok K p -> hash p = key_hash (abs p).
Proof.
  intros Hwf Hok. unfold hash_ok in Hok. rewrite Hok, (calculate_hash_rep K p _ (wf_rep _ Hwf)).
  unfold key_hash, abs. cbn [s_board s_turn s_wk s_wq s_bk s_bq s_ep]. rewrite !held_if.
  assert (E1 : board_hash K (at_sq (abs_board p)) = board_hash K (cell_of_b (brd p))).
  { apply board_hash_ext. intros q Hq. rewrite at_sq_abs_board by exact Hq. reflexivity. }
  assert (E2 : opt_sq (if ep p =? OffSq then None else Some (ep p)) = ep p).
  { destruct (N.eqb_spec (ep p) OffSq) as [E|E]; cbn [opt_sq]; congruence. }
  rewrite E1, E2. reflexivity.
Qed.

(* equal positions have equal hashes (the direction that needs no assumption) *)
Theorem same_core_key a b : same_core a b = true -> key_hash a = key_hash b.
Proof.
  intros H. apply same_core_iff in H. unfold core in H. inversion H as [[E1 E2 E3 E4 E5 E6 E7]].
  unfold key_hash. rewrite E1, E2, E3, E4, E5, E6, E7. reflexivity.
Qed.
End Key.

(* ================= 3. specification side: reversible stretches ================= *)
Lemma opp_opp s : opp_side (opp_side s) = s. Proof. destruct s; reflexivity. Qed.
Lemma opp_neq s : s <> opp_side s. Proof. destruct s; discriminate. Qed.

(* after any move of side s, every square keeps its content, is empty, or holds a piece of s *)
Lemma apply_board_cell b s m q : q < 64 ->
  at_sq (apply_board b s m) q = at_sq b q \/ at_sq (apply_board b s m) q = None \/
  exists pc, at_sq (apply_board b s m) q = Some (s, pc).
Proof.
  intros Hq. unfold apply_board.
  destruct (m_type m); try (destruct (castle_dest s _) as [kd rd]); rewrite !at_sq_put by exact Hq;
    repeat match goal with |- context [if ?c then _ else _] => destruct c end; eauto.
Qed.

Lemma lose_true r a b : lose r true a b = None. Proof. destruct r; reflexivity. Qed.
Lemma lose_none k a b : lose None k a b = None. Proof. reflexivity. Qed.

(* what the two-ply argument needs to know about a reversible move played in s *)
Definition sfit (s : spos) (m : move) : Prop :=
  m_from m < 64 /\
  match m_type m with
  | Normal => at_sq (s_board s) (m_from m) = Some (s_turn s, m_piece m) /\ m_from m <> m_to m
  | Ksc => m_piece m = King /\ held (match s_turn s with White => s_wk s | Black => s_bk s end) = true
  | Qsc => m_piece m = King /\ held (match s_turn s with White => s_wq s | Black => s_bq s end) = true
  | Double | Promo => m_piece m = Pawn
  | _ => True
  end.

(* a position cannot recur after exactly two plies inside a reversible stretch: the first move lifted a piece of the
   mover from its origin (and no reply puts a piece of that colour back), or it was castling and the right is gone *)
Theorem two_ply s m1 m2 : sfit s m1 -> irreversible m1 = false ->
  same_core (apply_move (apply_move s m1) m2) s = false.
Proof.
  intros [Hfrom Hfit] Hirr.
  destruct (same_core (apply_move (apply_move s m1) m2) s) eqn:E; [exfalso|reflexivity].
  apply same_core_iff in E. unfold core in E. inversion E as [[E1 E2 E3 E4 E5 E6 E7]]. clear E.
  unfold irreversible in Hirr. apply orb_false_iff in Hirr. destruct Hirr as [Hp Hty].
  destruct (m_type m1) eqn:Et; cbv iota in Hty; try discriminate.
  - (* Normal *)
    destruct Hfit as (Hf & Hne).
    assert (B1 : at_sq (apply_board (s_board s) (s_turn s) m1) (m_from m1) = None).
    { unfold apply_board. rewrite Et, !at_sq_put by exact Hfrom.
      destruct (N.eqb_spec (m_from m1) (m_to m1)) as [Z|Z]; [contradiction|]. rewrite N.eqb_refl. reflexivity. }
    assert (E1' : apply_board (apply_board (s_board s) (s_turn s) m1) (opp_side (s_turn s)) m2 = s_board s) by exact E1.
    destruct (apply_board_cell (apply_board (s_board s) (s_turn s) m1) (opp_side (s_turn s)) m2 (m_from m1) Hfrom) as [Z|[Z|[pc Z]]];
      rewrite E1', Hf in Z.
    + rewrite B1 in Z. discriminate.
    + discriminate.
    + inversion Z as [[Z1 Z2]]. exact (opp_neq _ Z1).
  - exfalso. rewrite Hfit in Hp. discriminate.
  - (* O-O *)
    destruct Hfit as [Hk Hheld]. unfold apply_move in E3, E5. cbn [s_wk s_bk s_turn] in E3, E5. rewrite Hk in E3, E5.
    destruct (s_turn s); cbn [piece_eqb piece_to_N N.eqb Pos.eqb side_eqb andb] in E3, E5.
    + rewrite lose_true, lose_none in E3. rewrite <- E3 in Hheld. discriminate.
    + rewrite lose_true, lose_none in E5. rewrite <- E5 in Hheld. discriminate.
  - (* O-O-O *)
    destruct Hfit as [Hk Hheld]. unfold apply_move in E4, E6. cbn [s_wq s_bq s_turn] in E4, E6. rewrite Hk in E4, E6.
    destruct (s_turn s); cbn [piece_eqb piece_to_N N.eqb Pos.eqb side_eqb andb] in E4, E6.
    + rewrite lose_true, lose_none in E4. rewrite <- E4 in Hheld. discriminate.
    + rewrite lose_true, lose_none in E6. rewrite <- E6 in Hheld. discriminate.
  - exfalso. rewrite Hfit in Hp. discriminate.
Qed.

(* a reversible stretch, newest position first: each position arises from the next one by a reversible move *)
Definition link (a b : spos) : Prop := exists m, a = apply_move b m /\ irreversible m = false /\ sfit b m.
Fixpoint chain (L : list spos) : Prop :=
  match L with
  | a :: t => match t with b :: _ => link a b /\ chain t | [] => True end
  | [] => True
  end.

Lemma link_turn a b : link a b -> s_turn b = opp_side (s_turn a).
Proof. intros (m & -> & _). unfold apply_move. cbn [s_turn]. rewrite opp_opp. reflexivity. Qed.
Lemma link2_core a b c : link a b -> link b c -> same_core a c = false.
Proof. intros (m2 & -> & _) (m1 & -> & Hi & Hf). apply two_ply; assumption. Qed.
Lemma diff_turn_core a b : s_turn b = opp_side (s_turn a) -> same_core a b = false.
Proof.
  intros H. destruct (same_core a b) eqn:E; [exfalso|reflexivity]. apply same_core_iff in E. unfold core in E.
  inversion E as [[E1 E2 E3 E4 E5 E6 E7]]. rewrite <- E2 in H. exact (opp_neq _ H).
Qed.

Fixpoint evens {A} (l : list A) : list A := match l with _ :: x :: r => x :: evens r | _ => [] end.
Lemma list_ind2 {A} (P : list A -> Prop) :
  P [] -> (forall a, P [a]) -> (forall a b r, P r -> P (a :: b :: r)) -> forall l, P l.
Proof. intros H0 H1 H2. fix IH 1. intros [|a [|b r]]; [exact H0|apply H1|apply H2, IH]. Qed.
Lemma evens_map {A B} (f : A -> B) l : evens (map f l) = map f (evens l).
Proof. induction l as [|a|a b r IH] using list_ind2; cbn [map evens]; [reflexivity|reflexivity|rewrite IH; reflexivity]. Qed.
Lemma evens_In {A} (x : A) l : In x (evens l) -> In x l.
Proof.
  induction l as [|a|a b r IH] using list_ind2; cbn [evens]; intros H; try contradiction.
  destruct H as [H|H]; [right; left; exact H|right; right; apply IH; exact H].
Qed.

Lemma chain_tail a t : chain (a :: t) -> chain t.
Proof. destruct t; cbn [chain]; [trivial|intros [_ H]; exact H]. Qed.
Lemma chain_head a b t : chain (a :: b :: t) -> link a b.
Proof. cbn [chain]. intros [H _]. exact H. Qed.
Lemma chain_dist2 a b c t : chain (a :: b :: c :: t) -> same_core a c = false.
Proof. intros H. exact (link2_core _ _ _ (chain_head _ _ _ H) (chain_head _ _ _ (chain_tail _ _ H))). Qed.

(* (b) only positions at even distances can equal the current one: the others have the other side to move *)
Lemma filter_evens c : forall past x, chain (x :: past) -> s_turn x = s_turn c ->
  filter (same_core c) past = filter (same_core c) (evens past).
Proof.
  induction past as [|a|a b r IH] using list_ind2; intros x Hc Hx.
  - reflexivity.
  - pose proof (link_turn _ _ (chain_head _ _ _ Hc)) as L1.
    cbn [filter evens]. rewrite diff_turn_core by congruence. reflexivity.
  - pose proof (link_turn _ _ (chain_head _ _ _ Hc)) as L1. apply chain_tail in Hc.
    pose proof (link_turn _ _ (chain_head _ _ _ Hc)) as L2. apply chain_tail in Hc.
    cbn [evens]. cbn [filter]. rewrite (diff_turn_core c a) by congruence.
    assert (Hb : s_turn b = s_turn c) by (rewrite L2, L1, opp_opp; exact Hx).
    rewrite (IH b Hc Hb). reflexivity.
Qed.

(* (c) fewer than eight reversible plies cannot contain two earlier occurrences of the current position *)
Lemma short_stretch c past : chain (c :: past) -> (length past < 8)%nat ->
  (length (filter (same_core c) (evens past)) <= 1)%nat.
Proof.
  intros Hc Hlen.
  destruct past as [|p0 [|p1 [|p2 [|p3 [|p4 [|p5 [|p6 [|p7 r]]]]]]]]; cbn [length] in Hlen; try lia;
    cbn [evens filter]; try (cbn [length]; lia).
  all: pose proof (chain_dist2 _ _ _ _ Hc) as D1; rewrite D1.
  all: try (cbn [length]; lia).
  all: pose proof (chain_dist2 _ _ _ _ (chain_tail _ _ (chain_tail _ _ Hc))) as D2.
  all: try (destruct (same_core c p3); cbn [length]; lia).
  all: pose proof (chain_dist2 _ _ _ _ (chain_tail _ _ (chain_tail _ _ (chain_tail _ _ (chain_tail _ _ Hc))))) as D3.
  all: destruct (same_core c p3) eqn:C3; destruct (same_core c p5) eqn:C5; cbn [length]; try lia.
  all: rewrite (same_core_trans3 c p3 p5 C3 C5) in D3; discriminate.
Qed.

(* the specification's count, rephrased over the even distances, with the >= 8 guard for free *)
Theorem spec_threefold_evens g half : chain (g_cur g :: g_past g) -> N.of_nat (length (g_past g)) <= half ->
  spec_threefold g = (8 <=? half) && (2 <=? N.of_nat (length (filter (same_core (g_cur g)) (evens (g_past g))))).
Proof.
  intros Hc Hlen. unfold spec_threefold, occurrences. rewrite (filter_evens (g_cur g) (g_past g) (g_cur g) Hc eq_refl).
  destruct (8 <=? half) eqn:E8; cbn [andb]; [lia|].
  pose proof (short_stretch _ _ Hc). lia.
Qed.

(* castling candidates exist only for held rights *)
Lemma pawn_candidates_types sp fr m : In m (pawn_candidates sp fr) -> m_type m <> Ksc /\ m_type m <> Qsc.
Proof.
  unfold pawn_candidates. intros H. apply in_app_or in H. destruct H as [H|H].
  - repeat match type of H with
           | In _ (match ?o with Some _ => _ | None => _ end) => destruct o
           | In _ (if ?c then _ else _) => destruct c
           | In _ (_ ++ _) => apply in_app_or in H; destruct H as [H|H]
           | In _ (map _ _) => apply in_map_iff in H; destruct H as [? [<- _]]
           | In _ [] => destruct H
           | In _ (_ :: _) => destruct H as [<-|H]
           end; cbn [m_type]; split; discriminate.
  - apply in_flat_map in H. destruct H as [to [_ H]].
    repeat match type of H with
           | In _ (match ?o with Some _ => _ | None => _ end) => destruct o
           | In _ (match ?o with (_, _) => _ end) => destruct o
           | In _ (if ?c then _ else _) => destruct c
           | In _ (map _ _) => apply in_map_iff in H; destruct H as [? [<- _]]
           | In _ [] => destruct H
           | In _ (_ :: _) => destruct H as [<-|H]
           end; cbn [m_type]; split; discriminate.
Qed.
Lemma castle_candidate_right sp mt r m : In m (castle_candidate sp mt r) -> held r = true.
Proof. unfold castle_candidate. destruct r; [reflexivity|intros H; destruct H]. Qed.
Lemma pseudo_castle_right sp m : In m (pseudo_moves sp) ->
  match m_type m with
  | Ksc => held (match s_turn sp with White => s_wk sp | Black => s_bk sp end) = true
  | Qsc => held (match s_turn sp with White => s_wq sp | Black => s_bq sp end) = true
  | _ => True
  end.
Proof.
  unfold pseudo_moves. intros H. apply in_app_or in H. destruct H as [H|H].
  - apply in_flat_map in H. destruct H as [fr [_ H]].
    destruct (at_sq (s_board sp) fr) as [[c pc]|]; [|destruct H]. destruct (side_eqb c (s_turn sp)); [|destruct H].
    assert (Hp : forall pc', In m (piece_candidates sp fr pc') -> m_type m <> Ksc /\ m_type m <> Qsc).
    { intros pc' Hin. apply piece_candidates_labels in Hin. destruct Hin as (_ & _ & [E|E]); rewrite E; split; discriminate. }
    assert (Hn : m_type m <> Ksc /\ m_type m <> Qsc).
    { destruct pc; cbv iota in H;
        try (match type of H with In _ (piece_candidates _ _ ?q) => exact (Hp q H) end);
        [exact (pawn_candidates_types sp fr m H)|destruct H]. }
    destruct Hn as [N1 N2]. destruct (m_type m); try exact I; congruence.
  - destruct (s_turn sp); apply in_app_or in H; destruct H as [H|H];
      pose proof (castle_candidate_labels _ _ _ _ H) as Et; rewrite Et; exact (castle_candidate_right _ _ _ _ H).
Qed.

(* ================= 4. model side ================= *)
(* the window of threefold() is the even-distance part of the first halfmove records *)
Lemma window_evens : forall l i half, window l i half = evens (map h_hash (firstn (N.to_nat (half + 2 - i)) l)).
Proof.
  induction l as [|a|a x r IH] using list_ind2; intros i half.
  - rewrite firstn_nil. reflexivity.
  - cbn [window]. destruct (N.to_nat (half + 2 - i)) as [|[|n]]; reflexivity.
  - cbn [window]. destruct (i <=? half) eqn:E.
    + replace (N.to_nat (half + 2 - i)) with (S (S (N.to_nat (half + 2 - (i + 2))))) by lia.
      cbn [firstn map evens]. rewrite IH. reflexivity.
    + destruct (N.to_nat (half + 2 - i)) as [|[|n]] eqn:En; [reflexivity|reflexivity|lia].
Qed.

Section Exact.
Variable K : zkeys.
Notation key_hash := (key_hash K).

(* with collision-free keys, counting equal hashes is counting equal positions *)
Lemma occ_count c L : (forall s, In s L -> key_hash c = key_hash s -> same_core c s = true) ->
  occ (key_hash c) (map key_hash L) = N.of_nat (length (filter (same_core c) L)).
Proof.
  unfold occ. induction L as [|a L IH]; intros H; [reflexivity|].
  cbn [map filter]. specialize (IH (fun s Hs => H s (or_intror Hs))).
  destruct (N.eqb_spec (key_hash c) (key_hash a)) as [E|E].
  - rewrite (H a (or_introl eq_refl) E). cbn [length]. lia.
  - destruct (same_core c a) eqn:Ec; [apply same_core_key with (K := K) in Ec; contradiction|exact IH].
Qed.

Lemma sfit_of_fit p m rk rq : mfits (cell_of p) (turn p) m rk rq -> In m (pseudo_moves (abs p)) -> sfit (abs p) m.
Proof.
  intros (Hfrom & Hto & Hfit) Hps. pose proof (pseudo_castle_right _ _ Hps) as Hr.
  split; [exact Hfrom|]. destruct (m_type m).
  - destruct Hfit as (E1 & E2 & Hne). split; [|exact Hne]. cbn [abs s_board s_turn]. rewrite at_sq_abs_board by exact Hfrom. exact E1.
  - exact I.
  - destruct Hfit as (Ep & _). exact Ep.
  - exact I.
  - destruct Hfit as (Ep & _). split; [exact Ep|exact Hr].
  - destruct Hfit as (Ep & _). split; [exact Ep|exact Hr].
  - destruct Hfit as (Ep & _). exact Ep.
  - exact I.
Qed.

(* (a) the invariant tying the model's history stack to the specification's list of earlier positions *)
Definition inv (p : position) (g : sgame) : Prop :=
  abs p = g_cur g /\ wf p = true /\ rooks_ok p /\ hash_ok K p /\ chain (g_cur g :: g_past g) /\
  map h_hash (firstn (N.to_nat (halfmove p)) (history p)) = map key_hash (g_past g) /\
  N.of_nat (length (g_past g)) <= halfmove p.

Lemma inv_start p0 : history p0 = [] -> wf p0 = true -> rooks_ok p0 -> hash_ok K p0 -> inv p0 (g_start (abs p0)).
Proof.
  intros Hh Hwf Hr Hok. unfold inv, g_start. cbn [g_cur g_past]. rewrite Hh, firstn_nil. cbn [map length chain].
  split; [reflexivity|]. split; [exact Hwf|]. split; [exact Hr|]. split; [exact Hok|]. split; [exact I|]. split; [reflexivity|lia].
Qed.

Lemma history_makemove p m : exists r, history (makemove K p m) = r :: history p /\ h_hash r = hash p.
Proof. eexists. split; reflexivity. Qed.

Lemma inv_move p g m :
  inv p g ->
  mfits (cell_of p) (turn p) m (rook_from_get p (side_to_N (turn p) * 2)) (rook_from_get p (side_to_N (turn p) * 2 + 1)) ->
  In m (pseudo_moves (abs p)) ->
  inv (makemove K p m) (g_move g m).
Proof.
  intros (A1 & A2 & A3 & A4 & A5 & A6 & A7) Hfit Hps.
  destruct (makemove_refines K p m A2 A3 Hfit) as [Ha Hw].
  assert (Hh : halfmove (makemove K p m) = if irreversible m then 0 else halfmove p + 1) by exact (f_equal s_half Ha).
  pose proof (makemove_hash_ok K p m A2 A3 Hfit A4) as Hok.
  destruct (history_makemove p m) as (r & Hr & Hrh).
  unfold inv, g_move. rewrite <- A1. destruct (irreversible m) eqn:Ei; cbn [g_cur g_past].
  - rewrite Hh. cbn [N.to_nat firstn map length chain].
    split; [exact Ha|]. split; [exact Hw|]. split; [exact A3|]. split; [exact Hok|]. split; [exact I|]. split; [reflexivity|lia].
  - rewrite Hh, Hr. replace (N.to_nat (halfmove p + 1)) with (S (N.to_nat (halfmove p))) by lia.
    cbn [firstn map length]. rewrite Hrh, (hash_abs K p A2 A4), A6.
    split; [exact Ha|]. split; [exact Hw|]. split; [exact A3|]. split; [exact Hok|].
    split; [|split; [reflexivity|lia]].
    refine (conj _ _).
    + exists m. split; [reflexivity|]. split; [exact Ei|]. exact (sfit_of_fit p m _ _ Hfit Hps).
    + rewrite A1. exact A5.
Qed.

Lemma inv_null p g : inv p g -> inv (makenull K p) (g_null g).
Proof.
  intros (A1 & A2 & A3 & A4 & A5 & A6 & A7). unfold inv, g_null. cbn [g_cur g_past]. rewrite <- A1.
  change (halfmove (makenull K p)) with 0. cbn [N.to_nat firstn map length chain].
  split; [reflexivity|]. split; [exact A2|]. split; [exact A3|]. split; [apply makenull_hash_ok; assumption|].
  split; [exact I|]. split; [reflexivity|lia].
Qed.

(* the core statement: under the invariant, and if no EARLIER position of the stretch collides with the current one *)
Theorem threefold_of_inv p g : inv p g ->
  (forall s, In s (g_past g) -> key_hash (g_cur g) = key_hash s -> same_core (g_cur g) s = true) ->
  threefold p = spec_threefold g.
Proof.
  intros (A1 & A2 & A3 & A4 & A5 & A6 & A7) Hinj.
  rewrite threefold_scan, window_evens. replace (halfmove p + 2 - 2) with (halfmove p) by lia.
  rewrite A6, evens_map, (hash_abs K p A2 A4), A1.
  rewrite occ_count by (intros s Hs; apply Hinj; apply evens_In; exact Hs).
  rewrite (spec_threefold_evens g (halfmove p) A5 A7). reflexivity.
Qed.

(* ================= 5. games ================= *)
(* what set_fen establishes *)
Definition start_ok (p0 : position) : Prop := history p0 = [] /\ wf p0 = true /\ rooks_ok p0 /\ hash_ok K p0.

(* joint execution of the model and of the specification: legal moves (of legal-consistent positions) and null moves *)
Inductive play (p0 : position) : position -> sgame -> Prop :=
| play_start : play p0 p0 (g_start (abs p0))
| play_move p g m dfrc : play p0 p g -> legal_consistent dfrc (abs p) = true -> In m (spec_moves (abs p)) ->
    play p0 (makemove K p m) (g_move g m)
| play_null p g : play p0 p g -> play p0 (makenull K p) (g_null g).

Lemma play_inv p0 p g : start_ok p0 -> play p0 p g -> inv p g.
Proof.
  intros (S1 & S2 & S3 & S4) H. induction H as [|p g m dfrc H IH Hlc Hin|p g H IH].
  - apply inv_start; assumption.
  - pose proof IH as (_ & _ & A3 & _).
    apply inv_move; [exact IH|exact (spec_moves_fit dfrc p m A3 Hlc Hin)|].
    unfold spec_moves in Hin. apply filter_In in Hin. exact (proj1 Hin).
  - apply inv_null. exact IH.
Qed.

(* the positions the specification compares: the current one and those since the last irreversible move / null / start *)
Definition visited (g : sgame) : list spos := g_cur g :: g_past g.
(* the key table does not collide on them *)
Definition collision_free (g : sgame) : Prop :=
  forall s1 s2, In s1 (visited g) -> In s2 (visited g) -> key_hash s1 = key_hash s2 -> same_core s1 s2 = true.

(* MAIN THEOREM, sharp form: only collisions of an earlier position with the current one matter *)
Theorem threefold_exact_cur p0 p g : start_ok p0 -> play p0 p g ->
  (forall s, In s (g_past g) -> key_hash (g_cur g) = key_hash s -> same_core (g_cur g) s = true) ->
  threefold p = spec_threefold g.
Proof. intros Hs Hp Hinj. exact (threefold_of_inv p g (play_inv p0 p g Hs Hp) Hinj). Qed.

(* MAIN THEOREM *)
Theorem threefold_exact p0 p g : start_ok p0 -> play p0 p g -> collision_free g -> threefold p = spec_threefold g.
Proof.
  intros Hs Hp Hcf. apply (threefold_exact_cur p0 p g Hs Hp).
  intros s Hin. apply Hcf; [left; reflexivity|right; exact Hin].
Qed.

(* (c) as a statement about games: a threefold repetition needs at least eight reversible plies *)
Theorem repetition_needs_eight p0 p g : start_ok p0 -> play p0 p g -> spec_threefold g = true ->
  (8 <= length (g_past g))%nat /\ 8 <= halfmove p.
Proof.
  intros Hs Hp H3. pose proof (play_inv p0 p g Hs Hp) as (_ & _ & _ & _ & A5 & _ & A7).
  rewrite (spec_threefold_evens g (N.of_nat (length (g_past g))) A5 (N.le_refl _)) in H3.
  apply andb_true_iff in H3. destruct H3 as [H8 _]. lia.
Qed.

(* set_fen establishes start_ok (for a FEN describing a well-formed board) *)
Lemma set_fen_start_ok old fen dfrc :
  wf (set_fen_on K old fen dfrc) = true -> rooks_ok (set_fen_on K old fen dfrc) -> start_ok (set_fen_on K old fen dfrc).
Proof.
  intros Hwf Hr. split; [apply set_fen_history_empty|]. split; [exact Hwf|]. split; [exact Hr|]. apply set_fen_hash_ok.
Qed.

(* the same with an explicit list of operations *)
Inductive gop := OpMove (m : move) | OpNull.
Definition gstep (st : position * sgame) (o : gop) : position * sgame :=
  match o with
  | OpMove m => (makemove K (fst st) m, g_move (snd st) m)
  | OpNull => (makenull K (fst st), g_null (snd st))
  end.
Definition gexec (ops : list gop) (st : position * sgame) : position * sgame := fold_left gstep ops st.
Fixpoint legal_ops (p : position) (ops : list gop) : Prop :=
  match ops with
  | [] => True
  | OpMove m :: r => (exists dfrc, legal_consistent dfrc (abs p) = true) /\ In m (spec_moves (abs p)) /\ legal_ops (makemove K p m) r
  | OpNull :: r => legal_ops (makenull K p) r
  end.

Lemma gexec_play p0 : forall ops p g, play p0 p g -> legal_ops p ops ->
  play p0 (fst (gexec ops (p, g))) (snd (gexec ops (p, g))).
Proof.
  induction ops as [|o r IH]; intros p g Hp Hl; [exact Hp|].
  destruct o as [m|]; cbn [legal_ops] in Hl; unfold gexec; cbn [fold_left gstep fst snd]; fold (gexec r).
  - destruct Hl as ([dfrc Hlc] & Hin & Hl). apply IH; [exact (play_move p0 p g m dfrc Hp Hlc Hin)|exact Hl].
  - apply IH; [exact (play_null p0 p g Hp)|exact Hl].
Qed.

Theorem threefold_exact_ops p0 ops : start_ok p0 -> legal_ops p0 ops ->
  collision_free (snd (gexec ops (p0, g_start (abs p0)))) ->
  threefold (fst (gexec ops (p0, g_start (abs p0)))) = spec_threefold (snd (gexec ops (p0, g_start (abs p0)))).
Proof. intros Hs Hl. apply (threefold_exact p0); [exact Hs|]. apply gexec_play; [apply play_start|exact Hl]. Qed.

(* ================= 6. undo ================= *)
Lemma fields_of_fit p m rq : mfits (cell_of p) (turn p) m (rook_from_get p (side_to_N (turn p) * 2)) rq -> move_fields_ok p m.
Proof.
  intros (_ & _ & H). unfold move_fields_ok. destruct (m_type m); try exact I.
  - destruct H as (_ & E & _). exact E.
  - destruct H as (E & _). exact E.
  - destruct H as (E & _). exact E.
Qed.

(* undoing a legal move gives back the model state exactly *)
Theorem undo_restores p0 p g m dfrc : start_ok p0 -> play p0 p g -> legal_consistent dfrc (abs p) = true ->
  In m (spec_moves (abs p)) -> undomove (makemove K p m) = p.
Proof.
  intros Hs Hp Hlc Hin. pose proof (play_inv p0 p g Hs Hp) as (_ & _ & A3 & _).
  apply undo_make. exact (fields_of_fit p m _ (spec_moves_fit dfrc p m A3 Hlc Hin)).
Qed.

(* histories with undo: the model position together with the stack of specification games (current game first), each
   tagged with the operation that produced it; undomove / undonull pop a game produced by a move / a null move *)
Inductive kind := KStart | KMove | KNull.
Inductive hreach (p0 : position) : position -> list (sgame * kind) -> Prop :=
| hr_start : hreach p0 p0 [(g_start (abs p0), KStart)]
| hr_move p g k st m dfrc : hreach p0 p ((g, k) :: st) -> legal_consistent dfrc (abs p) = true -> In m (spec_moves (abs p)) ->
    hreach p0 (makemove K p m) ((g_move g m, KMove) :: (g, k) :: st)
| hr_null p g k st : hreach p0 p ((g, k) :: st) -> hreach p0 (makenull K p) ((g_null g, KNull) :: (g, k) :: st)
| hr_undo p g st : hreach p0 p ((g, KMove) :: st) -> hreach p0 (undomove p) st
| hr_undonull p g st : hreach p0 p ((g, KNull) :: st) -> hreach p0 (undonull p) st.

(* the same without undo: every configuration reachable with undo is reachable without *)
Inductive coh (p0 : position) : position -> list (sgame * kind) -> Prop :=
| co_start : coh p0 p0 [(g_start (abs p0), KStart)]
| co_move p g k st m dfrc : coh p0 p ((g, k) :: st) -> legal_consistent dfrc (abs p) = true -> In m (spec_moves (abs p)) ->
    coh p0 (makemove K p m) ((g_move g m, KMove) :: (g, k) :: st)
| co_null p g k st : coh p0 p ((g, k) :: st) -> coh p0 (makenull K p) ((g_null g, KNull) :: (g, k) :: st).

Lemma coh_play p0 p st : coh p0 p st -> forall g k st', st = (g, k) :: st' -> play p0 p g.
Proof.
  induction 1 as [|p g k st m dfrc H IH Hlc Hin|p g k st H IH]; intros g' k' st' E; inversion E; subst.
  - apply play_start.
  - apply (play_move p0 p g m dfrc); [exact (IH _ _ _ eq_refl)|exact Hlc|exact Hin].
  - apply play_null. exact (IH _ _ _ eq_refl).
Qed.

Theorem hreach_coh p0 p st : start_ok p0 -> hreach p0 p st -> coh p0 p st.
Proof.
  intros Hs H. induction H as [|p g k st m dfrc H IH Hlc Hin|p g k st H IH|p g st H IH|p g st H IH].
  - apply co_start.
  - apply (co_move p0 p g k st m dfrc); assumption.
  - apply co_null. exact IH.
  - inversion IH as [|p1 g1 k1 st1 m1 dfrc1 H1 Hlc1 Hin1|]; subst.
    rewrite (undo_restores p0 p1 g1 m1 dfrc1 Hs (coh_play p0 p1 _ H1 _ _ _ eq_refl) Hlc1 Hin1). exact H1.
  - inversion IH as [| |p1 g1 k1 st1 H1]; subst. rewrite undonull_makenull. exact H1.
Qed.

(* C09 at every point of every history, undo included: the answer of threefold() is the specification's answer for
   the game on top of the stack; in particular undoing restores the earlier answers *)
Theorem threefold_exact_undo p0 p g k st : start_ok p0 -> hreach p0 p ((g, k) :: st) -> collision_free g ->
  threefold p = spec_threefold g.
Proof.
  intros Hs H Hcf. apply (threefold_exact p0 p g Hs); [|exact Hcf].
  exact (coh_play p0 p _ (hreach_coh p0 p _ Hs H) g k st eq_refl).
Qed.
End Exact.

Print Assumptions threefold_exact.
Print Assumptions threefold_exact_ops.
Print Assumptions threefold_exact_undo.
Check threefold_exact. Check threefold_exact_cur. Check threefold_exact_ops. Check threefold_exact_undo.
Check hreach_coh. Check undo_restores. Check two_ply. Check same_core_key. Check hash_abs. Check repetition_needs_eight.
