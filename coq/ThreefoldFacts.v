(* ThreefoldFacts.v — threefold() is a count over the reversible window of the history (C09, loop <-> count). *)
From Coq Require Import NArith List Bool Lia.
From LC Require Import Bits Types BitboardModel MoveModel ZobristModel PositionModel MovegenModel MakeModel FenModel GameModel MakeFacts.
Import ListNotations.
Local Open Scope N_scope.

(* the hashes the loop looks at: history_[size-2], history_[size-4], ... while the distance i stays <= the half-move
   clock (and inside the vector) *)
Fixpoint window (l : list hrec) (i half : N) : list N :=
  match l with
  | _ :: x :: rest => if i <=? half then h_hash x :: window rest (i + 2) half else []
  | _ => []
  end.

Definition occ (h : N) (l : list N) : N := N.of_nat (length (filter (N.eqb h) l)).

Lemma three_scan_count : forall (n : nat) l i half h r, (length l <= n)%nat -> r <= 1 ->
  three_scan l i half h r = (2 <=? r + occ h (window l i half)).
Proof.
  induction n as [|n IH]; intros l i half h r Hl Hr.
  - destruct l; [cbn; lia|cbn in Hl; lia].
  - destruct l as [|a [|x rest]]; [cbn; lia|cbn; lia|].
    cbn [three_scan window]. destruct (i <=? half) eqn:Ei; [|cbn; lia].
    unfold occ. cbn [filter]. rewrite (N.eqb_sym h (h_hash x)).
    destruct (h_hash x =? h) eqn:Eh.
    + cbn [length]. destruct (2 <=? r + 1) eqn:E2.
      * lia.
      * rewrite IH by (cbn [length] in Hl; lia). unfold occ. lia.
    + rewrite IH by (cbn [length] in Hl; lia). reflexivity.
Qed.

(* threefold() is true exactly when the clock allows it (>= 8 reversible plies) and the current hash occurs at least
   twice among the earlier positions of the window with the same side to move: third occurrence *)
Theorem threefold_scan p :
  threefold p = (8 <=? halfmove p) && (2 <=? occ (hash p) (window (history p) 2 (halfmove p))).
Proof.
  unfold threefold. destruct (halfmove p <? 8) eqn:E.
  - replace (8 <=? halfmove p) with false by lia. reflexivity.
  - replace (8 <=? halfmove p) with true by lia. cbn [andb].
    rewrite (three_scan_count (length (history p)) _ _ _ _ 0) by lia. reflexivity.
Qed.

(* the window never looks further back than the half-move clock, nor beyond the stored history *)
Lemma window_length l i half : (N.of_nat (length (window l i half)) * 2 <= N.of_nat (length l))%N.
Proof.
  revert i. induction l as [l IH] using (well_founded_induction (Wf_nat.well_founded_ltof _ (@length hrec))).
  intros i. destruct l as [|a [|x rest]]; cbn [window length]; try lia.
  destruct (i <=? half); cbn [length]; [|lia].
  assert (Hlt : Wf_nat.ltof _ (@length hrec) rest (a :: x :: rest)) by (unfold Wf_nat.ltof; cbn; lia).
  specialize (IH rest Hlt (i + 2)). lia.
Qed.

(* undoing moves restores earlier answers exactly (from C03) *)
Theorem threefold_after_undo K p m : move_fields_ok p m -> threefold (undomove (makemove K p m)) = threefold p.
Proof. intros H. rewrite undo_make by exact H. reflexivity. Qed.
Theorem threefold_after_undonull K p : threefold (undonull (makenull K p)) = threefold p.
Proof. rewrite undonull_makenull. reflexivity. Qed.

(* a null move empties the window: the clock is zero afterwards *)
Theorem threefold_after_null K p : threefold (makenull K p) = false.
Proof. reflexivity. Qed.
