(* Types.v — enums and records shared by the model M and the spec S. *)
From Coq Require Import NArith List Bool.
Import ListNotations.
Local Open Scope N_scope.

Inductive side := White | Black.
Inductive piece := Pawn | Knight | Bishop | Rook | Queen | King | NoPiece.
Inductive mtype := Normal | Capture | Double | Enpassant | Ksc | Qsc | Promo | PromoCapture.

Definition side_to_N (s : side) : N := match s with White => 0 | Black => 1 end.
Definition piece_to_N (p : piece) : N :=
  match p with Pawn => 0 | Knight => 1 | Bishop => 2 | Rook => 3 | Queen => 4 | King => 5 | NoPiece => 6 end.
Definition mtype_to_N (t : mtype) : N :=
  match t with Normal => 0 | Capture => 1 | Double => 2 | Enpassant => 3
             | Ksc => 4 | Qsc => 5 | Promo => 6 | PromoCapture => 7 end.
(* static_cast<Piece>(x & 7): 7 is not an enumerator; the library never builds it.  It is kept
   distinguishable (maps to NoPiece only in piece_of_N's totalisation; MoveFacts states the
   round trip for the 7 enumerators only). *)
Definition piece_of_N (n : N) : piece :=
  match n with 0 => Pawn | 1 => Knight | 2 => Bishop | 3 => Rook | 4 => Queen | 5 => King | _ => NoPiece end.
Definition mtype_of_N (n : N) : mtype :=
  match n with 0 => Normal | 1 => Capture | 2 => Double | 3 => Enpassant
             | 4 => Ksc | 5 => Qsc | 6 => Promo | _ => PromoCapture end.
Definition side_of_N (n : N) : side := match n with 0 => White | _ => Black end.

Definition opp_side (s : side) : side := match s with White => Black | Black => White end.

Definition side_eqb (a b : side) : bool :=
  match a, b with White, White | Black, Black => true | _, _ => false end.
Definition piece_eqb (a b : piece) : bool := piece_to_N a =? piece_to_N b.
Definition mtype_eqb (a b : mtype) : bool := mtype_to_N a =? mtype_to_N b.

Record move := mkMove {
  m_type : mtype; m_from : N; m_to : N; m_piece : piece; m_cap : piece; m_promo : piece }.

Definition move_eqb (a b : move) : bool :=
  mtype_eqb (m_type a) (m_type b) && (m_from a =? m_from b) && (m_to a =? m_to b) &&
  piece_eqb (m_piece a) (m_piece b) && piece_eqb (m_cap a) (m_cap b) && piece_eqb (m_promo a) (m_promo b).

Definition all_pieces : list piece := [Pawn; Knight; Bishop; Rook; Queen; King].
Definition all_pieces7 : list piece := [Pawn; Knight; Bishop; Rook; Queen; King; NoPiece].
Definition all_mtypes : list mtype := [Normal; Capture; Double; Enpassant; Ksc; Qsc; Promo; PromoCapture].
