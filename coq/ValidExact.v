(* ValidExact.v — C20 (model level): valid() is COMPLETE on the legal-consistent domain, hence true after every
   set_fen, makemove, undomove, makenull and undonull of every legal history; the run-level forms of C03 (each undo
   returns exactly the earlier position, arbitrarily interleaved) and C05 (hash() = calculate_hash() at every point). *)
From Coq Require Import NArith ZArith List Bool Lia.
From Coq Require Import ZifyBool ZifyN ZifyNat.
From LC Require Import Bits BitsFacts Types BitboardModel BitboardFacts MoveModel MoveFacts ZobristModel PositionModel MovegenModel MakeModel
  FenModel FenFacts Spec.Rules Refine.Abs Refine.Board Refine.Make Refine.Wf Refine.MakeAbs Refine.SpecFits
  HashFacts MakeFacts AttackFacts KingFacts LegalFacts LcStep PerftExact ThreefoldExact LegalFinal ValidFacts.
Import ListNotations.
Local Open Scope N_scope.
Local Strategy 1000 [squares all64 seq].

(* ================= 1. finite sweeps ================= *)
Lemma count_bit_sweep : forallb (fun k => bb_count (bit k) =? 1) all64 = true.
Proof. vm_compute. reflexivity. Qed.
Lemma count_bit k : k < 64 -> bb_count (bit k) = 1.
Proof. intros Hk. apply N.eqb_eq. exact (forallb_all64 _ count_bit_sweep k Hk). Qed.

Lemma edge_rank_sweep :
  forallb (fun q => Bool.eqb (N.testbit (N.lor Rank1 Rank8) q) ((rankof q =? 0) || (rankof q =? 7))) all64 = true.
Proof. vm_compute. reflexivity. Qed.
Lemma edge_rank q : q < 64 -> N.testbit (N.lor Rank1 Rank8) q = ((rankof q =? 0) || (rankof q =? 7)).
Proof. intros Hq. apply eqb_prop. exact (forallb_all64 _ edge_rank_sweep q Hq). Qed.

Definition home_mask (s : side) : N := match s with White => Rank1 | Black => Rank8 end.
Definition home_rank (s : side) : N := match s with White => 0 | Black => 7 end.
Lemma home_sweep s :
  forallb (fun k => implb (rankof k =? home_rank s) (bb_nonempty (N.land (bit k) (home_mask s)))) all64 = true.
Proof. destruct s; vm_compute; reflexivity. Qed.
Lemma home_bit s k : k < 64 -> rankof k = home_rank s -> bb_nonempty (N.land (bit k) (home_mask s)) = true.
Proof.
  intros Hk E. pose proof (forallb_all64 _ (home_sweep s) k Hk) as H. cbv beta in H.
  rewrite E, N.eqb_refl in H. exact H.
Qed.

Lemma opp_opp' s : opp_side (opp_side s) = s. Proof. destruct s; reflexivity. Qed.

(* ================= 2. valid() is complete on the domain ================= *)
Section Complete.
Variable K : zkeys.
Variable dfrc : bool.
Variable p : position.
Hypothesis Hwf : wf p = true.
Hypothesis Hr : rooks_ok p.
Hypothesis Hlc : legal_consistent dfrc (abs p) = true.
Notation f := (cell_of_b (brd p)).

Lemma Hrep : rep (brd p) f.
Proof. apply wf_rep. exact Hwf. Qed.

(* the king of side s: found by the rules, read by king_position, alone on the board *)
Lemma king_of s : exists k, find_king (abs_board p) s = Some k /\ king_position p s = k /\ k < 64 /\ f k = Some (s, King) /\
  pieces p s King = bit k.
Proof.
  destruct (lc_king dfrc p s Hlc) as [k [Hk Huk]]. exists k. split; [exact Hk|].
  assert (Hk' : find_king (board_of f) s = Some k) by exact Hk.
  destruct (king_position_exact p f s k Hrep Hk') as (E & Hk64 & Hfk).
  split; [exact E|]. split; [exact Hk64|]. split; [exact Hfk|].
  apply (king_bb_single p f s k Hrep Hk64 Hfk Huk).
Qed.

Lemma v_king_count s : (bb_count (pieces p s King) =? 1) = true.
Proof. destruct (king_of s) as (k & _ & _ & Hk & _ & E). rewrite E. apply N.eqb_eq. apply count_bit. exact Hk. Qed.

Lemma v_pawn_ranks : bb_empty (N.land (b_pawn (brd p)) (N.lor Rank1 Rank8)) = true.
Proof.
  unfold bb_empty. apply N.eqb_eq. apply N.bits_inj. intros i. rewrite N.land_spec, N.bits_0.
  pose proof Hrep as [Hh Hlt]. destruct (N.ltb_spec i 64) as [Hi|Hi].
  - destruct (Hh i Hi) as [[_ Hpc] _]. specialize (Hpc Pawn). change (pcs (brd p) Pawn) with (b_pawn (brd p)) in Hpc.
    rewrite Hpc by discriminate. rewrite (edge_rank i Hi).
    apply lc_all in Hlc. destruct Hlc as (_ & _ & _ & Hok & _).
    pose proof (okc_at (abs p) i Hok Hi) as Ho. change (s_board (abs p)) with (abs_board p) in Ho.
    rewrite at_sq_abs_board in Ho by exact Hi. change (cell_of p i) with (f i) in Ho.
    destruct (f i) as [[c pc]|]; [|reflexivity]. destruct pc; try reflexivity.
    unfold okc in Ho. cbn [piece_eqb]. apply negb_true_iff in Ho. rewrite Ho. reflexivity.
  - destruct Hlt as (_ & _ & Hp & _). rewrite (proj1 (lt64_iff _) Hp i Hi). reflexivity.
Qed.

Lemma v_not_attacked : negb (square_attacked p (king_position p (opp_side (turn p))) (turn p)) = true.
Proof.
  apply negb_true_iff. destruct (king_of (opp_side (turn p))) as (k & Hf & E & Hk & _).
  rewrite E. rewrite (square_attacked_exact p f k (turn p) Hrep Hk).
  apply lc_all in Hlc. destruct Hlc as (_ & _ & _ & _ & Ha & _).
  change (s_board (abs p)) with (abs_board p) in Ha. change (s_turn (abs p)) with (turn p) in Ha.
  unfold king_attacked in Ha. rewrite Hf in Ha. rewrite opp_opp' in Ha. exact Ha.
Qed.

Lemma v_ep : (if negb (ep p =? OffSq)
   then match turn p with White => sq_rank (ep p) =? 5 | Black => sq_rank (ep p) =? 2 end
   else true) = true.
Proof.
  destruct (ep p =? OffSq) eqn:Ee; [reflexivity|]. cbn [negb].
  destruct (lc_parts dfrc (abs p) Hlc) as (_ & _ & _ & _ & He).
  unfold ep_ok in He. change (s_ep (abs p)) with (if ep p =? OffSq then None else Some (ep p)) in He. rewrite Ee in He.
  cbv zeta in He. change (s_turn (abs p)) with (turn p) in He.
  apply andb_true_iff in He. destruct He as [He _]. apply andb_true_iff in He. destruct He as [_ He].
  change (sq_rank (ep p)) with (rankof (ep p)). destruct (turn p); exact He.
Qed.

Lemma v_right s ks (c : bool) r : r < 64 -> right_ok (abs_board p) s ks dfrc (if c then Some r else None) = true ->
  (if c then bb_nonempty (N.land (bit (king_position p s)) (home_mask s)) && piece_eqb (piece_on p r) Rook else true) = true.
Proof.
  intros Hr64 H. destruct c; [|reflexivity]. unfold right_ok in H.
  destruct (king_of s) as (k & Hf & E & Hk & _). rewrite Hf in H. cbv zeta in H.
  repeat (apply andb_true_iff in H; let H' := fresh "R" in destruct H as [H H']).
  apply N.eqb_eq in H. rewrite E. rewrite (home_bit s k Hk) by (destruct s; exact H). cbn [andb].
  rewrite at_sq_abs_board in R1 by exact Hr64. unfold cell_of in R1.
  destruct (piece_on p r); try discriminate R1. reflexivity.
Qed.

Theorem valid_complete_core : hash_ok K p -> valid K p = true.
Proof.
  intros Hh. pose proof Hwf as W. unfold wf, wf_board in W.
  repeat (apply andb_true_iff in W; let H' := fresh "W" in destruct W as [W H']).
  destruct (lc_parts dfrc (abs p) Hlc) as (R0 & R1 & R2 & R3 & _).
  destruct Hr as (Q0 & Q1 & Q2 & Q3).
  unfold valid. cbv zeta.
  repeat match goal with |- (_ && _) = true => apply andb_true_iff; split end.
  - apply N.eqb_eq. exact Hh.
  - exact v_ep.
  - apply v_king_count.
  - apply v_king_count.
  - exact W2.
  - exact v_pawn_ranks.
  - exact W1.
  - exact W0.
  - exact v_not_attacked.
  - exact (v_right White true (c0 p) (r0 p) Q0 R0).
  - exact (v_right White false (c1 p) (r1 p) Q1 R1).
  - exact (v_right Black true (c2 p) (r2 p) Q2 R2).
  - exact (v_right Black false (c3 p) (r3 p) Q3 R3).
Qed.
End Complete.

Theorem valid_complete K dfrc p : wf p = true -> rooks_ok p -> hash_ok K p -> legal_consistent dfrc (abs p) = true -> valid K p = true.
Proof. intros Hwf Hr Hh Hlc. exact (valid_complete_core K dfrc p Hwf Hr Hlc Hh). Qed.

(* ================= 3. null moves stay in the domain ================= *)
(* After a null move the side that passed is the side not to move, so it must not be in check; the en-passant square is
   cleared (ep_ok trivial); board, rights and king counts are untouched. *)
Theorem lc_apply_null dfrc s : legal_consistent dfrc s = true -> spec_in_check s = false ->
  legal_consistent dfrc (apply_null s) = true.
Proof.
  intros H Hc. apply lc_all in H. destruct H as (A1 & A2 & A3 & A4 & A5 & A6 & A7 & A8 & A9 & A10).
  apply lc_all. unfold apply_null. cbn [s_board s_turn s_wk s_wq s_bk s_bq s_ep].
  rewrite opp_opp'. unfold spec_in_check in Hc.
  split; [exact A1|]. split; [exact A2|]. split; [exact A3|]. split; [exact A4|]. split; [exact Hc|].
  split; [exact A6|]. split; [exact A7|]. split; [exact A8|]. split; [exact A9|]. reflexivity.
Qed.

(* the hypothesis is necessary: a null move out of check leaves the domain *)
Theorem lc_apply_null_conv dfrc s : legal_consistent dfrc (apply_null s) = true -> spec_in_check s = false.
Proof.
  intros H. apply lc_all in H. destruct H as (_ & _ & _ & _ & A5 & _).
  unfold apply_null in A5. cbn [s_board s_turn] in A5. rewrite opp_opp' in A5. exact A5.
Qed.

(* ================= 4. the domain, one operation at a time ================= *)
Section Runs.
Variable K : zkeys.
Variable dfrc : bool.

Definition dom (p : position) : Prop :=
  wf p = true /\ rooks_ok p /\ hash_ok K p /\ legal_consistent dfrc (abs p) = true.
(* the invariant of the task, verbatim *)
Definition inv5 (p : position) : Prop :=
  wf p = true /\ rooks_ok p /\ hash_ok K p /\ legal_consistent dfrc (abs p) = true /\ valid K p = true.

Lemma dom_inv5 p : dom p -> inv5 p.
Proof.
  intros (H1 & H2 & H3 & H4). split; [exact H1|]. split; [exact H2|]. split; [exact H3|]. split; [exact H4|].
  exact (valid_complete K dfrc p H1 H2 H3 H4).
Qed.

(* makemove with a generated move: stays in the domain, refines the rules' move, is undone exactly *)
Theorem dom_move p m : dom p -> In m (legal_moves p) ->
  dom (makemove K p m) /\ abs (makemove K p m) = apply_move (abs p) m /\ undomove (makemove K p m) = p.
Proof.
  intros (H1 & H2 & H3 & H4) Hin.
  pose proof (proj1 (proj2 (legal_moves_exact dfrc p H1 H2 H4) m) Hin) as Hs.
  pose proof (spec_moves_fit dfrc p m H2 H4 Hs) as Hfit.
  destruct (reach_invariant K dfrc p m H1 H2 H4 Hs) as (W & R & L).
  split; [|split].
  - split; [exact W|]. split; [exact R|]. split; [|exact L]. exact (makemove_hash_ok K p m H1 H2 Hfit H3).
  - exact (reach_step_abs K dfrc p m H1 H2 H4 Hs).
  - apply undo_make. exact (fields_of_fit p m _ Hfit).
Qed.

(* makenull when not in check: the same *)
Theorem dom_null p : dom p -> in_check p = false ->
  dom (makenull K p) /\ abs (makenull K p) = apply_null (abs p) /\ undonull (makenull K p) = p.
Proof.
  intros (H1 & H2 & H3 & H4) Hc. destruct (makenull_refines K p) as [Ha Hw].
  split; [|split].
  - split; [exact (Hw H1)|]. split; [exact H2|]. split; [exact (makenull_hash_ok K p H1 H3)|].
    rewrite Ha. apply lc_apply_null; [exact H4|]. rewrite <- (in_check_spec dfrc p H1 H4). exact Hc.
  - exact Ha.
  - apply undonull_makenull.
Qed.

Theorem makenull_valid p : dom p -> in_check p = false -> valid K (makenull K p) = true.
Proof. intros Hd Hc. destruct (dom_null p Hd Hc) as [Hd' _]. apply dom_inv5 in Hd'. apply Hd'. Qed.

(* and the restriction is necessary: a null move while in check produces a position that valid() rejects *)
Theorem makenull_in_check_invalid p : dom p -> in_check p = true -> valid K (makenull K p) = false.
Proof.
  intros (H1 & H2 & H3 & H4) Hc. destruct (valid K (makenull K p)) eqn:E; [|reflexivity]. exfalso.
  destruct (valid_sound K _ E) as (_ & _ & _ & _ & Ha & _).
  change (turn (makenull K p)) with (opp_side (turn p)) in Ha. rewrite opp_opp' in Ha.
  change (square_attacked (makenull K p)) with (fun sq s => negb (bb_empty (attackers (makenull K p) sq s))) in Ha.
  cbv beta in Ha.
  change (attackers (makenull K p)) with (attackers p) in Ha. change (king_position (makenull K p)) with (king_position p) in Ha.
  unfold in_check, square_attacked in Hc. rewrite Hc in Ha. discriminate.
Qed.

(* ================= 5. histories: make / null / undo arbitrarily interleaved ================= *)
(* A configuration is the current position together with the stack of the positions in which the not-yet-undone
   operations were played (most recent first), each tagged with the operation played there.  An undo pops the stack:
   undomove for a move, undonull for a null move. *)
Inductive made := ByMove | ByNull.
Definition hstack := list (position * made).

Inductive hist (p0 : position) : position -> hstack -> Prop :=
| hist_start : hist p0 p0 []
| hist_move p st m : hist p0 p st -> In m (legal_moves p) -> hist p0 (makemove K p m) ((p, ByMove) :: st)
| hist_null p st : hist p0 p st -> in_check p = false -> hist p0 (makenull K p) ((p, ByNull) :: st)
| hist_undo p q st : hist p0 p ((q, ByMove) :: st) -> hist p0 (undomove p) st
| hist_undonull p q st : hist p0 p ((q, ByNull) :: st) -> hist p0 (undonull p) st.

(* what the stack means: every entry is a domain position, the position above it is its successor by the tagged
   operation, and the matching undo function gives the entry back as a whole record *)
Fixpoint stack_ok (p0 p : position) (st : hstack) : Prop :=
  match st with
  | [] => p = p0
  | (q, ByMove) :: r => dom q /\ (exists m, In m (legal_moves q) /\ p = makemove K q m) /\ undomove p = q /\ stack_ok p0 q r
  | (q, ByNull) :: r => dom q /\ in_check q = false /\ p = makenull K q /\ undonull p = q /\ stack_ok p0 q r
  end.

Theorem hist_coherent p0 p st : dom p0 -> hist p0 p st -> dom p /\ stack_ok p0 p st.
Proof.
  intros H0 H. induction H as [|p st m H IH Hin|p st H IH Hc|p q st H IH|p q st H IH].
  - split; [exact H0|reflexivity].
  - destruct IH as [Hd Hs]. destruct (dom_move p m Hd Hin) as (Hd' & _ & Hu).
    split; [exact Hd'|]. cbn [stack_ok]. split; [exact Hd|]. split; [exists m; split; [exact Hin|reflexivity]|].
    split; [exact Hu|exact Hs].
  - destruct IH as [Hd Hs]. destruct (dom_null p Hd Hc) as (Hd' & _ & Hu).
    split; [exact Hd'|]. cbn [stack_ok]. split; [exact Hd|]. split; [exact Hc|]. split; [reflexivity|].
    split; [exact Hu|exact Hs].
  - destruct IH as [_ Hs]. cbn [stack_ok] in Hs. destruct Hs as (Hd & _ & Hu & Hs). rewrite Hu. split; assumption.
  - destruct IH as [_ Hs]. cbn [stack_ok] in Hs. destruct Hs as (Hd & _ & _ & Hu & Hs). rewrite Hu. split; assumption.
Qed.

(* C20 / C05 at every point of every history: the domain invariant, hash() = calculate_hash() and valid() *)
Theorem hist_invariant p0 p st : dom p0 -> hist p0 p st -> inv5 p.
Proof. intros H0 H. apply dom_inv5. exact (proj1 (hist_coherent p0 p st H0 H)). Qed.

Corollary hist_hash p0 p st : dom p0 -> hist p0 p st -> hash p = calculate_hash K p.
Proof. intros H0 H. destruct (hist_invariant p0 p st H0 H) as (_ & _ & Hh & _). exact Hh. Qed.

Corollary hist_valid p0 p st : dom p0 -> hist p0 p st -> valid K p = true.
Proof. intros H0 H. destruct (hist_invariant p0 p st H0 H) as (_ & _ & _ & _ & Hv). exact Hv. Qed.

(* C03 at the level of runs: each undo returns EXACTLY the earlier position (history vector included), and that
   position with the rest of the stack is again a configuration of the history *)
Theorem hist_undo_exact p0 p q st : dom p0 -> hist p0 p ((q, ByMove) :: st) -> undomove p = q /\ hist p0 q st.
Proof.
  intros H0 H. destruct (hist_coherent p0 p _ H0 H) as [_ Hs]. cbn [stack_ok] in Hs. destruct Hs as (_ & _ & Hu & _).
  split; [exact Hu|]. rewrite <- Hu. exact (hist_undo p0 p q st H).
Qed.

Theorem hist_undonull_exact p0 p q st : dom p0 -> hist p0 p ((q, ByNull) :: st) -> undonull p = q /\ hist p0 q st.
Proof.
  intros H0 H. destruct (hist_coherent p0 p _ H0 H) as [_ Hs]. cbn [stack_ok] in Hs. destruct Hs as (_ & _ & _ & Hu & _).
  split; [exact Hu|]. rewrite <- Hu. exact (hist_undonull p0 p q st H).
Qed.

(* when everything has been undone the start position is back *)
Theorem hist_all_undone p0 p : dom p0 -> hist p0 p [] -> p = p0.
Proof. intros H0 H. exact (proj2 (hist_coherent p0 p [] H0 H)). Qed.

(* every position on the stack satisfies the invariant as well *)
Theorem hist_stack_invariant p0 p st q k : dom p0 -> hist p0 p st -> In (q, k) st -> inv5 q.
Proof.
  intros H0 H. destruct (hist_coherent p0 p st H0 H) as [_ Hs]. clear H. revert p Hs.
  induction st as [|[q' k'] r IH]; intros p Hs Hin; [destruct Hin|].
  destruct Hin as [E|Hin].
  - inversion E; subst. apply dom_inv5. destruct k; cbn [stack_ok] in Hs; apply Hs.
  - destruct k'; cbn [stack_ok] in Hs.
    + destruct Hs as (_ & _ & _ & Hs). exact (IH q' Hs Hin).
    + destruct Hs as (_ & _ & _ & _ & Hs). exact (IH q' Hs Hin).
Qed.

(* the history vector has exactly one record per not-yet-undone operation (no pop from an empty vector) *)
Lemma stack_history_length p0 : forall st p, stack_ok p0 p st -> length (history p) = (length st + length (history p0))%nat.
Proof.
  induction st as [|[q k] r IH]; intros p Hs.
  - cbn [stack_ok] in Hs. subst. reflexivity.
  - destruct k; cbn [stack_ok] in Hs.
    + destruct Hs as (_ & (m & _ & E) & _ & Hs). destruct (history_makemove K q m) as (rec & Eh & _).
      rewrite E, Eh. cbn [length]. rewrite (IH q Hs). reflexivity.
    + destruct Hs as (_ & _ & E & _ & Hs). rewrite E. change (history (makenull K q)) with
        (mkH (hash q) null_move (ep q) (halfmove q) false false false false :: history q).
      cbn [length]. rewrite (IH q Hs). reflexivity.
Qed.

Theorem hist_history_length p0 p st : dom p0 -> history p0 = [] -> hist p0 p st -> length (history p) = length st.
Proof.
  intros H0 He H. rewrite (stack_history_length p0 st p (proj2 (hist_coherent p0 p st H0 H))), He. cbn [length]. lia.
Qed.

(* ---------- the same with explicit lists of operations ---------- *)
Inductive hop := OpMove (m : move) | OpNull | OpUndo.
Definition hstate := (position * hstack)%type.

Definition hstep (s : hstate) (o : hop) : hstate :=
  match o with
  | OpMove m => (makemove K (fst s) m, (fst s, ByMove) :: snd s)
  | OpNull => (makenull K (fst s), (fst s, ByNull) :: snd s)
  | OpUndo => match snd s with
              | (_, ByMove) :: r => (undomove (fst s), r)
              | (_, ByNull) :: r => (undonull (fst s), r)
              | [] => s
              end
  end.
Definition hrun (ops : list hop) (s : hstate) : hstate := fold_left hstep ops s.

(* legality of an operation in a configuration: a generated move; a null move when not in check; an undo when
   something is left to undo *)
Definition hop_ok (s : hstate) (o : hop) : Prop :=
  match o with
  | OpMove m => In m (legal_moves (fst s))
  | OpNull => in_check (fst s) = false
  | OpUndo => snd s <> []
  end.
Fixpoint hops_ok (s : hstate) (ops : list hop) : Prop :=
  match ops with
  | [] => True
  | o :: r => hop_ok s o /\ hops_ok (hstep s o) r
  end.

Lemma hstep_hist p0 s o : hist p0 (fst s) (snd s) -> hop_ok s o -> hist p0 (fst (hstep s o)) (snd (hstep s o)).
Proof.
  destruct s as [p st]. cbn [fst snd]. intros H Ho. destruct o as [m| |]; cbn [hstep hop_ok fst snd] in *.
  - apply hist_move; assumption.
  - apply hist_null; assumption.
  - destruct st as [|[q [|]] r]; [exact H| |]; cbn [fst snd].
    + exact (hist_undo p0 p q r H).
    + exact (hist_undonull p0 p q r H).
Qed.

Lemma hrun_hist p0 : forall ops s, hist p0 (fst s) (snd s) -> hops_ok s ops ->
  hist p0 (fst (hrun ops s)) (snd (hrun ops s)).
Proof.
  induction ops as [|o r IH]; intros s H Hok; [exact H|]. destruct Hok as [Ho Hr].
  unfold hrun. cbn [fold_left]. apply (IH (hstep s o)); [apply hstep_hist; assumption|exact Hr].
Qed.

Lemma hops_ok_firstn : forall n ops s, hops_ok s ops -> hops_ok s (firstn n ops).
Proof.
  induction n as [|n IH]; intros ops s H; [exact I|]. destruct ops as [|o r]; [exact I|].
  destruct H as [Ho Hr]. cbn [firstn hops_ok]. split; [exact Ho|apply IH; exact Hr].
Qed.

(* the invariant holds after EVERY prefix of EVERY legal list of operations *)
Theorem run_invariant p0 ops n : dom p0 -> hops_ok (p0, []) ops -> inv5 (fst (hrun (firstn n ops) (p0, []))).
Proof.
  intros H0 Hok. apply (hist_invariant p0 _ (snd (hrun (firstn n ops) (p0, []))) H0).
  apply hrun_hist; [apply hist_start|apply hops_ok_firstn; exact Hok].
Qed.

Theorem run_valid p0 ops : dom p0 -> hops_ok (p0, []) ops -> valid K (fst (hrun ops (p0, []))) = true.
Proof.
  intros H0 Hok. pose proof (run_invariant p0 ops (length ops) H0 Hok) as H. rewrite firstn_all in H.
  destruct H as (_ & _ & _ & _ & Hv). exact Hv.
Qed.

Theorem run_hash p0 ops : dom p0 -> hops_ok (p0, []) ops ->
  hash (fst (hrun ops (p0, []))) = calculate_hash K (fst (hrun ops (p0, []))).
Proof.
  intros H0 Hok. pose proof (run_invariant p0 ops (length ops) H0 Hok) as H. rewrite firstn_all in H.
  destruct H as (_ & _ & Hh & _). exact Hh.
Qed.

(* an undo step in a reachable configuration pops the stack and returns exactly the position recorded there *)
Theorem run_undo_exact p0 ops q k st : dom p0 -> hops_ok (p0, []) ops -> snd (hrun ops (p0, [])) = (q, k) :: st ->
  hstep (hrun ops (p0, [])) OpUndo = (q, st).
Proof.
  intros H0 Hok E. pose proof (hrun_hist p0 ops (p0, []) (hist_start p0) Hok) as H.
  destruct (hrun ops (p0, [])) as [p st0]. cbn [fst snd] in *. subst st0. cbn [hstep snd fst]. destruct k.
  - rewrite (proj1 (hist_undo_exact p0 p q st H0 H)). reflexivity.
  - rewrite (proj1 (hist_undonull_exact p0 p q st H0 H)). reflexivity.
Qed.

(* a make immediately followed by its undo is the identity on configurations (so is any balanced run, by iteration) *)
Theorem run_make_undo p0 ops m : dom p0 -> hops_ok (p0, []) (ops ++ [OpMove m]) ->
  hrun (ops ++ [OpMove m; OpUndo]) (p0, []) = hrun ops (p0, []).
Proof.
  intros H0 Hok.
  assert (Hsplit : forall a b s, hops_ok s (a ++ b) -> hops_ok s a /\ hops_ok (hrun a s) b).
  { induction a as [|o r IH]; intros b s H; [split; [exact I|exact H]|].
    destruct H as [Ho Hr]. destruct (IH b (hstep s o) Hr) as [A B]. split; [split; assumption|exact B]. }
  destruct (Hsplit ops [OpMove m] (p0, []) Hok) as [Ha [Hm _]].
  pose proof (hrun_hist p0 ops (p0, []) (hist_start p0) Ha) as H.
  unfold hrun. rewrite fold_left_app. fold (hrun ops (p0, [])).
  destruct (hrun ops (p0, [])) as [p st]. cbn [fst snd hop_ok] in *. cbn [fold_left hstep fst snd].
  destruct (dom_move p m (proj1 (hist_coherent p0 p st H0 H)) Hm) as (_ & _ & Hu). rewrite Hu. reflexivity.
Qed.

Theorem run_null_undo p0 ops : hrun (ops ++ [OpNull; OpUndo]) (p0, []) = hrun ops (p0, []).
Proof.
  unfold hrun. rewrite fold_left_app. fold (hrun ops (p0, [])).
  destruct (hrun ops (p0, [])) as [p st]. cbn [fold_left hstep fst snd]. rewrite undonull_makenull. reflexivity.
Qed.

(* ================= 6. set_fen produces start positions ================= *)
Theorem set_fen_on_valid old fen d :
  let p := set_fen_on K old fen d in
  wf p = true -> rooks_ok p -> legal_consistent dfrc (abs p) = true -> valid K p = true.
Proof.
  intros p Hwf Hr Hlc. apply (valid_complete K dfrc p Hwf Hr); [|exact Hlc]. apply set_fen_hash_ok.
Qed.

Theorem set_fen_start old fen d :
  let p := set_fen_on K old fen d in
  wf p = true -> rooks_ok p -> legal_consistent dfrc (abs p) = true -> dom p /\ history p = [] /\ valid K p = true.
Proof.
  intros p Hwf Hr Hlc. split; [|split].
  - split; [exact Hwf|]. split; [exact Hr|]. split; [apply set_fen_hash_ok|exact Hlc].
  - apply set_fen_history_empty.
  - apply set_fen_on_valid; assumption.
Qed.
End Runs.

Theorem set_fen_valid K dfrc fen :
  let p := set_fen K fen dfrc in
  wf p = true -> rooks_ok p -> legal_consistent dfrc (abs p) = true -> valid K p = true.
Proof. exact (set_fen_on_valid K dfrc fresh_position fen dfrc). Qed.

Theorem set_fen_history K fen dfrc : history (set_fen K fen dfrc) = [].
Proof. exact (set_fen_history_empty K fresh_position fen dfrc). Qed.

(* everything together: from a FEN describing a legal-consistent position, along every legal list of operations *)
Theorem C20_valid_on_histories K dfrc fen ops :
  let p0 := set_fen K fen dfrc in
  wf p0 = true -> rooks_ok p0 -> legal_consistent dfrc (abs p0) = true -> hops_ok K (p0, []) ops ->
  forall n, inv5 K dfrc (fst (hrun K (firstn n ops) (p0, []))).
Proof.
  intros p0 Hwf Hr Hlc Hok n. apply run_invariant; [|exact Hok].
  exact (proj1 (set_fen_start K dfrc fresh_position fen dfrc Hwf Hr Hlc)).
Qed.

Print Assumptions valid_complete.
Print Assumptions lc_apply_null.
Print Assumptions hist_invariant.
Print Assumptions hist_undo_exact.
Print Assumptions run_undo_exact.
Print Assumptions C20_valid_on_histories.
