(* ValidFacts.v — what valid() = true guarantees (the rejection clause of C20, contrapositive) and that the
   structural half of valid() is the representation invariant preserved by makemove (C02). *)
From Coq Require Import NArith List Bool Lia.
From LC Require Import Bits Types BitboardModel MoveModel ZobristModel PositionModel Refine.Abs.
Import ListNotations.
Local Open Scope N_scope.

Section Valid.
Variable K : zkeys.

Theorem valid_sound p : valid K p = true ->
  hash p = calculate_hash K p /\
  bb_count (pieces p White King) = 1 /\ bb_count (pieces p Black King) = 1 /\
  N.land (b_pawn (brd p)) (N.lor Rank1 Rank8) = 0 /\
  square_attacked p (king_position p (opp_side (turn p))) (turn p) = false /\
  N.land (b_white (brd p)) (b_black (brd p)) = 0.
Proof.
  unfold valid. intros H.
  repeat (apply andb_true_iff in H; let H' := fresh "V" in destruct H as [H H']).
  unfold bb_empty in *.
  repeat match goal with H : (_ =? _) = true |- _ => apply N.eqb_eq in H end.
  apply negb_true_iff in V3.
  repeat split; assumption.
Qed.

(* a position with a missing or duplicated king, a pawn on the first or eighth rank, or the side not to move
   in check is rejected *)
Theorem valid_rejects p :
  bb_count (pieces p White King) <> 1 \/ bb_count (pieces p Black King) <> 1 \/
  N.land (b_pawn (brd p)) (N.lor Rank1 Rank8) <> 0 \/
  square_attacked p (king_position p (opp_side (turn p))) (turn p) = true ->
  valid K p = false.
Proof.
  intros H. destruct (valid K p) eqn:E; [|reflexivity]. exfalso.
  destruct (valid_sound p E) as (_ & H1 & H2 & H3 & H4 & _).
  destruct H as [H|[H|[H|H]]]; congruence.
Qed.

(* valid() implies the representation invariant when all words are 64-bit *)
Theorem valid_wf p : valid K p = true -> b_white (brd p) < two64 -> b_black (brd p) < two64 -> wf p = true.
Proof.
  unfold valid, wf, wf_board. intros H Hw Hb.
  repeat (apply andb_true_iff in H; let H' := fresh "V" in destruct H as [H H']).
  unfold bb_empty in V7.
  rewrite !andb_true_iff. repeat split; [apply N.ltb_lt; exact Hw|apply N.ltb_lt; exact Hb|exact V7|exact V5|exact V4].
Qed.
End Valid.
