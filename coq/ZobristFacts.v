(* ZobristFacts.v — XOR algebra of key lists, decidable NoDup, index injectivity (C15). *)
From Coq Require Import NArith List Bool Lia.
From Coq Require Import ZifyBool ZifyN ZifyNat.
From LC Require Import Bits Types BitboardModel ZobristModel.
Import ListNotations.
Local Open Scope N_scope.

Fixpoint nodupb (l : list N) : bool :=
  match l with [] => true | x :: r => negb (existsb (N.eqb x) r) && nodupb r end.
Lemma nodupb_sound l : nodupb l = true -> NoDup l.
Proof.
  induction l as [|x r IH]; intros H; [constructor|].
  simpl in H. apply andb_true_iff in H. destruct H as [H1 H2]. constructor; [|apply IH; exact H2].
  intros Hin. apply negb_true_iff in H1. assert (existsb (N.eqb x) r = true); [|congruence].
  apply existsb_exists. exists x. split; [exact Hin|apply N.eqb_refl].
Qed.

Definition all_keys (K : zkeys) : list N := zk_turn K :: zk_castling K ++ zk_ep K ++ zk_piece K.

(* the hash of a feature set: XOR of its keys *)
Definition xor_all (l : list N) : N := fold_right N.lxor 0 l.

Lemma xor_all_app a b : xor_all (a ++ b) = N.lxor (xor_all a) (xor_all b).
Proof. induction a as [|x r IH]; simpl; [reflexivity|]. rewrite IH, N.lxor_assoc. reflexivity. Qed.

Lemma lxor_cancel_l h a b : N.lxor h a = N.lxor h b -> a = b.
Proof. intros H. apply (f_equal (N.lxor h)) in H. rewrite <- !N.lxor_assoc, N.lxor_nilpotent, !N.lxor_0_l in H. exact H. Qed.

Section Distinct.
Variable keys : list N.
Hypothesis Hnz : forallb (fun k => negb (k =? 0)) keys = true.
Hypothesis Hnd : NoDup keys.

Lemma key_nonzero k : In k keys -> k <> 0.
Proof. intros H. rewrite forallb_forall in Hnz. specialize (Hnz k H). apply negb_true_iff, N.eqb_neq in Hnz. exact Hnz. Qed.

Lemma nth_distinct i j : (i < length keys)%nat -> (j < length keys)%nat -> i <> j -> nth i keys 0 <> nth j keys 0.
Proof. intros Hi Hj Hne E. apply Hne. apply (proj1 (NoDup_nth keys 0) Hnd i j Hi Hj E). Qed.

(* positions whose feature sets differ in exactly one feature *)
Theorem differ_one common k : In k keys -> xor_all (common ++ [k]) <> xor_all common.
Proof.
  intros Hk E. rewrite xor_all_app in E. simpl in E. rewrite N.lxor_0_r in E.
  rewrite <- (N.lxor_0_r (xor_all common)) in E at 2. apply lxor_cancel_l in E. exact (key_nonzero k Hk E).
Qed.
(* ... in exactly two features: both extra on one side, or one on each side *)
Theorem differ_two_same_side common i j : (i < length keys)%nat -> (j < length keys)%nat -> i <> j ->
  xor_all (common ++ [nth i keys 0; nth j keys 0]) <> xor_all common.
Proof.
  intros Hi Hj Hne E. rewrite xor_all_app in E. simpl in E. rewrite N.lxor_0_r in E.
  rewrite <- (N.lxor_0_r (xor_all common)) in E at 2. apply lxor_cancel_l in E.
  apply N.lxor_eq in E. exact (nth_distinct i j Hi Hj Hne E).
Qed.
Theorem differ_two_opposite common i j : (i < length keys)%nat -> (j < length keys)%nat -> i <> j ->
  xor_all (common ++ [nth i keys 0]) <> xor_all (common ++ [nth j keys 0]).
Proof.
  intros Hi Hj Hne E. rewrite !xor_all_app in E. simpl in E. rewrite !N.lxor_0_r in E.
  apply lxor_cancel_l in E. exact (nth_distinct i j Hi Hj Hne E).
Qed.
End Distinct.

(* the index formula of piece_key is injective on (piece, side, square) and stays inside the table *)
Definition piece_index (p : piece) (s : side) (sq : N) : N := 64 * 2 * piece_to_N p + 64 * side_to_N s + sq.
Theorem piece_index_injective p1 s1 q1 p2 s2 q2 :
  p1 <> NoPiece -> p2 <> NoPiece -> q1 < 64 -> q2 < 64 ->
  piece_index p1 s1 q1 = piece_index p2 s2 q2 -> p1 = p2 /\ s1 = s2 /\ q1 = q2.
Proof.
  intros N1 N2 H1 H2. unfold piece_index.
  destruct p1, p2; try congruence; destruct s1, s2; cbn [piece_to_N side_to_N]; intros E;
    first [ exfalso; lia | split; [reflexivity|split; [reflexivity|lia]] ].
Qed.
Theorem piece_index_bound p s q : p <> NoPiece -> q < 64 -> piece_index p s q < 768.
Proof. intros Np H. unfold piece_index. destruct p; try congruence; destruct s; cbn [piece_to_N side_to_N]; lia. Qed.
