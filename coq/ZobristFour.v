(* ZobristFour.v — no XOR of one, two, three or four distinct Zobrist keys is zero (extends C15).
   The check runs over the keys the library actually returns (Gen/ZobristKeys.v, regenerated on every run):
   the 1 + 781 + 781*780/2 = 305 372 values  0 :: keys ++ {ki xor kj | i < j}  are pairwise distinct.
   The check sorts them (Coq.Sorting.Mergesort) and tests that neighbours are strictly increasing. *)
From Coq Require Import NArith List Bool Lia Permutation Orders Sorting.Mergesort.
From LC Require Import Bits Types BitboardModel ZobristModel ZobristFacts.
From LC.Gen Require Import ZobristKeys.
(* the 781 keys the library returns (same definition as in Properties_C15.v, which imports this file) *)
Definition keys781 : list N := all_keys zk.
Import ListNotations.
Local Open Scope N_scope.

(* ---------- a linearithmic, proved NoDup checker on list N ---------- *)
Module NLeb <: TotalLeBool.
  Definition t := N.
  Definition leb := N.leb.
  Theorem leb_total : forall a1 a2, leb a1 a2 = true \/ leb a2 a1 = true.
  Proof. intros a b. unfold leb. destruct (N.leb_spec a b); [left; reflexivity|right; apply N.leb_le; lia]. Qed.
End NLeb.
Module NSort := Sort NLeb.

(* neighbours strictly increasing *)
Fixpoint incrb (x : N) (l : list N) : bool :=
  match l with [] => true | y :: r => (x <? y) && incrb y r end.
Definition sorted_distinctb (l : list N) : bool :=
  match l with [] => true | x :: r => incrb x r end.

Lemma incrb_above x l : incrb x l = true -> forall y, In y l -> x < y.
Proof.
  revert x. induction l as [|z r IH]; intros x H y Hy; [destruct Hy|].
  cbn [incrb] in H. apply andb_true_iff in H. destruct H as [H1 H2]. apply N.ltb_lt in H1.
  destruct Hy as [Hy|Hy]; [subst; exact H1|]. specialize (IH z H2 y Hy). lia.
Qed.
Lemma incrb_nodup x l : incrb x l = true -> NoDup (x :: l).
Proof.
  revert x. induction l as [|z r IH]; intros x H; [constructor; [intros []|constructor]|].
  constructor.
  - intros Hin. pose proof (incrb_above x (z :: r) H x Hin). lia.
  - cbn [incrb] in H. apply andb_true_iff in H. apply IH. exact (proj2 H).
Qed.
Lemma sorted_distinctb_nodup l : sorted_distinctb l = true -> NoDup l.
Proof. destruct l as [|x r]; [constructor|]. apply incrb_nodup. Qed.

Definition nodup_fastb (l : list N) : bool := sorted_distinctb (NSort.sort l).
Theorem nodup_fastb_sound l : nodup_fastb l = true -> NoDup l.
Proof.
  intros H. apply sorted_distinctb_nodup in H.
  apply (Permutation_NoDup (l := NSort.sort l)); [|exact H].
  apply Permutation_sym, NSort.Permuted_sort.
Qed.

(* ---------- XORs of unordered pairs ---------- *)
Fixpoint pair_xors (l : list N) : list N :=
  match l with [] => [] | a :: r => map (N.lxor a) r ++ pair_xors r end.

(* a occurs strictly before b in l *)
Fixpoint before (a b : N) (l : list N) : Prop :=
  match l with [] => False | x :: r => (a = x /\ In b r) \/ before a b r end.

Lemma before_total a b l : In a l -> In b l -> a <> b -> before a b l \/ before b a l.
Proof.
  induction l as [|x r IH]; intros Ha Hb Hne; [destruct Ha|].
  cbn [before]. destruct Ha as [Ha|Ha], Hb as [Hb|Hb].
  - congruence.
  - left. left. split; [symmetry; exact Ha|exact Hb].
  - right. left. split; [symmetry; exact Hb|exact Ha].
  - destruct (IH Ha Hb Hne) as [H|H]; [left|right]; right; exact H.
Qed.
Lemma before_in_pair_xors a b l : before a b l -> In (N.lxor a b) (pair_xors l).
Proof.
  induction l as [|x r IH]; intros H; [destruct H|].
  cbn [pair_xors]. apply in_or_app. destruct H as [[Ha Hb]|H].
  - left. subst x. apply in_map. exact Hb.
  - right. apply IH. exact H.
Qed.
Lemma in_pair_xors a b l : In a l -> In b l -> a <> b -> In (N.lxor a b) (pair_xors l).
Proof.
  intros Ha Hb Hne. destruct (before_total a b l Ha Hb Hne) as [H|H].
  - apply before_in_pair_xors. exact H.
  - rewrite N.lxor_comm. apply before_in_pair_xors. exact H.
Qed.

Lemma NoDup_app_l (A : Type) (l1 l2 : list A) : NoDup (l1 ++ l2) -> NoDup l1.
Proof.
  induction l1 as [|x r IH]; intros H; [constructor|].
  cbn [app] in H. inversion H as [|? ? Hx Hr]; subst. constructor; [|apply IH; exact Hr].
  intros Hin. apply Hx. apply in_or_app. left. exact Hin.
Qed.
Lemma NoDup_app_r (A : Type) (l1 l2 : list A) : NoDup (l1 ++ l2) -> NoDup l2.
Proof.
  induction l1 as [|x r IH]; intros H; [exact H|].
  cbn [app] in H. inversion H; subst. apply IH. assumption.
Qed.
Lemma NoDup_app_disj (A : Type) (l1 l2 : list A) x : NoDup (l1 ++ l2) -> In x l1 -> In x l2 -> False.
Proof.
  induction l1 as [|y r IH]; intros H H1 H2; [destruct H1|].
  cbn [app] in H. inversion H as [|? ? Hy Hr]; subst. destruct H1 as [H1|H1].
  - subst y. apply Hy. apply in_or_app. right. exact H2.
  - exact (IH Hr H1 H2).
Qed.

(* distinct pair XORs: the ordered index pair is determined by the XOR *)
Lemma pair_xors_inj l : NoDup (pair_xors l) -> forall a b c d,
  before a b l -> before c d l -> N.lxor a b = N.lxor c d -> a = c /\ b = d.
Proof.
  induction l as [|x r IH]; intros Hnd a b c d Hab Hcd E; [destruct Hab|].
  cbn [pair_xors] in Hnd. cbn [before] in Hab, Hcd.
  destruct Hab as [[Ha Hb]|Hab], Hcd as [[Hc Hd]|Hcd].
  - subst a c. split; [reflexivity|]. exact (lxor_cancel_l x b d E).
  - exfalso. subst a. apply (NoDup_app_disj _ _ _ (N.lxor x b) Hnd).
    + apply in_map. exact Hb.
    + rewrite E. apply before_in_pair_xors. exact Hcd.
  - exfalso. subst c. apply (NoDup_app_disj _ _ _ (N.lxor x d) Hnd).
    + apply in_map. exact Hd.
    + rewrite <- E. apply before_in_pair_xors. exact Hab.
  - exact (IH (NoDup_app_r _ _ _ Hnd) a b c d Hab Hcd E).
Qed.

(* ---------- the algebra, for any key list passing the check ---------- *)
Definition upto4_values (keys : list N) : list N := 0 :: keys ++ pair_xors keys.
Definition upto4_checkb (keys : list N) : bool := nodup_fastb (upto4_values keys).

Section UpTo4.
Variable keys : list N.
Hypothesis Hchk : upto4_checkb keys = true.

Lemma vals_nodup : NoDup (upto4_values keys).
Proof. apply nodup_fastb_sound. exact Hchk. Qed.
Lemma kp_nodup : NoDup (keys ++ pair_xors keys).
Proof. pose proof vals_nodup as H. unfold upto4_values in H. inversion H; assumption. Qed.
Lemma zero_not_val : ~ In 0 (keys ++ pair_xors keys).
Proof. pose proof vals_nodup as H. unfold upto4_values in H. inversion H; assumption. Qed.

Lemma xor1 a : In a keys -> a <> 0.
Proof. intros Ha E. subst a. apply zero_not_val. apply in_or_app. left. exact Ha. Qed.
Lemma xor2 a b : a <> b -> N.lxor a b <> 0.
Proof. intros Hne E. apply Hne. apply N.lxor_eq. exact E. Qed.
Lemma xor3 a b c : In a keys -> In b keys -> In c keys -> b <> c -> N.lxor a (N.lxor b c) <> 0.
Proof.
  intros Ha Hb Hc Hne E. apply N.lxor_eq in E.
  apply (NoDup_app_disj _ _ _ a kp_nodup Ha). rewrite E. apply in_pair_xors; assumption.
Qed.
Lemma xor4 a b c d : In a keys -> In b keys -> In c keys -> In d keys ->
  a <> b -> a <> c -> a <> d -> b <> c -> b <> d -> c <> d ->
  N.lxor a (N.lxor b (N.lxor c d)) <> 0.
Proof.
  intros Ha Hb Hc Hd Nab Nac Nad Nbc Nbd Ncd E.
  rewrite <- (N.lxor_assoc a b (N.lxor c d)) in E. apply N.lxor_eq in E.
  pose proof (pair_xors_inj keys (NoDup_app_r _ _ _ kp_nodup)) as Inj.
  destruct (before_total a b keys Ha Hb Nab) as [H1|H1], (before_total c d keys Hc Hd Ncd) as [H2|H2].
  - destruct (Inj a b c d H1 H2 E) as [X _]. exact (Nac X).
  - rewrite (N.lxor_comm c d) in E. destruct (Inj a b d c H1 H2 E) as [X _]. exact (Nad X).
  - rewrite (N.lxor_comm a b) in E. destruct (Inj b a c d H1 H2 E) as [X _]. exact (Nbc X).
  - rewrite (N.lxor_comm a b), (N.lxor_comm c d) in E. destruct (Inj b a d c H1 H2 E) as [X _]. exact (Nbd X).
Qed.

Theorem no_zero_xor_upto4_gen : forall ks, NoDup ks -> incl ks keys -> (1 <= length ks <= 4)%nat -> xor_all ks <> 0.
Proof.
  intros ks Hnd Hin Hlen.
  destruct ks as [|a [|b [|c [|d [|e r]]]]]; cbn [length] in Hlen; try (exfalso; lia);
    unfold xor_all; cbn [fold_right]; rewrite N.lxor_0_r.
  - apply xor1. apply Hin. left. reflexivity.
  - apply xor2. inversion Hnd as [|? ? Ha _]; subst. intros E. apply Ha. left. symmetry. exact E.
  - inversion Hnd as [|? ? Ha Hr]; subst. inversion Hr as [|? ? Hb _]; subst.
    apply xor3; try (apply Hin; cbn [In]; tauto).
    intros E. apply Hb. left. symmetry. exact E.
  - inversion Hnd as [|? ? Ha Hr]; subst. inversion Hr as [|? ? Hb Hr2]; subst. inversion Hr2 as [|? ? Hc _]; subst.
    cbn [In] in Ha, Hb, Hc.
    apply xor4; try (apply Hin; cbn [In]; tauto); intros E; subst; tauto.
Qed.

Theorem differ_upto4_gen : forall common A B, NoDup (A ++ B) -> incl (A ++ B) keys ->
  (1 <= length A + length B <= 4)%nat -> xor_all (common ++ A) <> xor_all (common ++ B).
Proof.
  intros common A B Hnd Hin Hlen E. rewrite !xor_all_app in E. apply lxor_cancel_l in E.
  apply (no_zero_xor_upto4_gen (A ++ B) Hnd Hin); [rewrite app_length; exact Hlen|].
  rewrite xor_all_app, E. apply N.lxor_nilpotent.
Qed.
End UpTo4.

(* ---------- the actual table ---------- *)
(* one evaluation only (at Qed, by the kernel's VM): `vm_compute. reflexivity.` would run it twice *)
Lemma keys_upto4_checkb : upto4_checkb keys781 = true.
Proof. vm_cast_no_check (eq_refl true). Qed.

Theorem keys_upto4_distinct : NoDup (0 :: keys781 ++ pair_xors keys781).
Proof. exact (vals_nodup keys781 keys_upto4_checkb). Qed.
Theorem keys_upto4_count : N.of_nat (length (0 :: keys781 ++ pair_xors keys781)) = 305372.
Proof. vm_compute. reflexivity. Qed.

Theorem no_zero_xor_upto4 : forall ks, NoDup ks -> incl ks keys781 -> (1 <= length ks <= 4)%nat -> xor_all ks <> 0.
Proof. exact (no_zero_xor_upto4_gen keys781 keys_upto4_checkb). Qed.

Theorem differ_upto4 : forall common A B, NoDup (A ++ B) -> incl (A ++ B) keys781 ->
  (1 <= length A + length B <= 4)%nat -> xor_all (common ++ A) <> xor_all (common ++ B).
Proof. exact (differ_upto4_gen keys781 keys_upto4_checkb). Qed.

Print Assumptions keys_upto4_distinct. Print Assumptions no_zero_xor_upto4. Print Assumptions differ_upto4.

(* the checker is not vacuous: it rejects a repeated value, a zero key, k1^k2 = k3, and k1^k2 = k3^k4 *)
Example checker_rejects : nodup_fastb [3; 1; 3] = false /\ upto4_checkb [5; 0] = false
  /\ upto4_checkb [1; 2; 3] = false /\ upto4_checkb [1; 2; 4; 7] = false /\ upto4_checkb [1; 2; 4; 8] = true.
Proof. vm_compute. repeat split; reflexivity. Qed.
