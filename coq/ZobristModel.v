(* ZobristModel.v — src/zobrist.cpp as seen through its four public functions.  The key values
   are a parameter (Section variable): the hash theorems C05/C12 hold for any keys; C15 is
   about the concrete keys, regenerated into Gen/ZobristKeys.v from the current source. *)
From Coq Require Import NArith List Bool.
From LC Require Import Bits Types BitboardModel.
Import ListNotations.
Local Open Scope N_scope.

Record zkeys := mkZ {
  zk_turn : N;
  zk_castling : list N;           (* 4 *)
  zk_ep : list N;                 (* 8, by file *)
  zk_piece : list N               (* 768, index 128*piece + 64*side + sq *)
}.

Section Keys.
Variable K : zkeys.
Definition turn_key : N := zk_turn K.
Definition castling_key (i : N) : N := nth (N.to_nat i) (zk_castling K) 0.
Definition ep_key (sq : N) : N := nth (N.to_nat (sq_file sq)) (zk_ep K) 0.
Definition piece_key (p : piece) (s : side) (sq : N) : N :=
  nth (N.to_nat (64 * 2 * piece_to_N p + 64 * side_to_N s + sq)) (zk_piece K) 0.
End Keys.
