(* base.ml — glue shared by the checker: conversions between OCaml values and the extracted Coq
   datatypes, the PRNG, the driver subprocess, replay logging, statistics. *)
open Lcmodel

(* ---------- conversions ---------- *)
let rec pos_of_int i = if i = 1 then XH else if i land 1 = 0 then XO (pos_of_int (i lsr 1)) else XI (pos_of_int (i lsr 1))
let n_of_int i = if i = 0 then N0 else Npos (pos_of_int i)
let rec int_of_pos = function XH -> 1 | XO p -> 2 * int_of_pos p | XI p -> 2 * int_of_pos p + 1
let int_of_n = function N0 -> 0 | Npos p -> int_of_pos p
let rec nat_of_int i = if i = 0 then O else S (nat_of_int (i - 1))

let n_of_bits (bits : bool list) : n =
  let rec go = function
    | [] -> None
    | b :: r -> (match go r with None -> if b then Some XH else None | Some p -> Some (if b then XI p else XO p)) in
  match go bits with None -> N0 | Some p -> Npos p
let rec bits_of_pos = function XH -> [true] | XO p -> false :: bits_of_pos p | XI p -> true :: bits_of_pos p
let bits_of_n = function N0 -> [] | Npos p -> bits_of_pos p

let n_of_hex (s : string) : n =
  let bits = ref [] in
  (* walk from the most significant digit: each digit's bits go in front, so the list ends up lsb first *)
  String.iter (fun c ->
      let d = match c with '0' .. '9' -> Char.code c - 48 | 'a' .. 'f' -> Char.code c - 87 | 'A' .. 'F' -> Char.code c - 55
                           | _ -> failwith ("bad hex " ^ s) in
      bits := [d land 1 = 1; d land 2 = 2; d land 4 = 4; d land 8 = 8] @ !bits) s;
  n_of_bits !bits
let hex_of_n (x : n) : string =
  let bits = Array.of_list (bits_of_n x) in
  let nb = Array.length bits in
  if nb = 0 then "0" else begin
    let nd = (nb + 3) / 4 in
    let b = Buffer.create nd in
    for d = nd - 1 downto 0 do
      let v = ref 0 in
      for k = 3 downto 0 do
        let i = d * 4 + k in
        v := !v * 2 + (if i < nb && bits.(i) then 1 else 0)
      done;
      Buffer.add_char b "0123456789abcdef".[!v]
    done;
    Buffer.contents b
  end

let str_of_string (s : string) : n list = List.init (String.length s) (fun i -> n_of_int (Char.code s.[i]))
let string_of_str (l : n list) : string = String.init (List.length l) (fun i -> Char.chr (int_of_n (List.nth l i) land 255))
let hexstr (s : string) = if s = "" then "-" else String.concat "" (List.init (String.length s) (fun i -> Printf.sprintf "%02x" (Char.code s.[i])))
let unhexstr (h : string) = if h = "-" then "" else String.init (String.length h / 2) (fun i -> Char.chr (int_of_string ("0x" ^ String.sub h (2 * i) 2)))

let side_of_int i = if i = 0 then White else Black
let int_of_side = function White -> 0 | Black -> 1
let pieces_arr = [| Pawn; Knight; Bishop; Rook; Queen; King; NoPiece |]
let int_of_piece = function Pawn -> 0 | Knight -> 1 | Bishop -> 2 | Rook -> 3 | Queen -> 4 | King -> 5 | NoPiece -> 6
let piece_of_int i = if i >= 0 && i <= 6 then pieces_arr.(i) else NoPiece
let mtypes_arr = [| Normal; Capture; Double; Enpassant; Ksc; Qsc; Promo; PromoCapture |]
let int_of_mtype = function Normal -> 0 | Capture -> 1 | Double -> 2 | Enpassant -> 3 | Ksc -> 4 | Qsc -> 5 | Promo -> 6 | PromoCapture -> 7

(* the driver's canonical code of the six accessor results *)
let code_of_move (m : move) : int =
  let c = int_of_mtype m.m_type in
  let c = c * 64 + int_of_n m.m_from in
  let c = c * 64 + int_of_n m.m_to in
  let c = c * 8 + int_of_piece m.m_piece in
  let c = c * 8 + int_of_piece m.m_cap in
  c * 8 + int_of_piece m.m_promo
let move_of_code (c : int) : move =
  let pr = c mod 8 in let c = c / 8 in
  let cap = c mod 8 in let c = c / 8 in
  let pc = c mod 8 in let c = c / 8 in
  let t = c mod 64 in let c = c / 64 in
  let f = c mod 64 in let c = c / 64 in
  { m_type = mtypes_arr.(c land 7); m_from = n_of_int f; m_to = n_of_int t; m_piece = piece_of_int pc;
    m_cap = piece_of_int cap; m_promo = piece_of_int pr }
let sq_name q = Printf.sprintf "%c%c" (Char.chr (97 + q mod 8)) (Char.chr (49 + q / 8))
let show_move (m : move) =
  Printf.sprintf "%s%s[t%d p%d c%d pr%d]" (sq_name (int_of_n m.m_from)) (sq_name (int_of_n m.m_to))
    (int_of_mtype m.m_type) (int_of_piece m.m_piece) (int_of_piece m.m_cap) (int_of_piece m.m_promo)
let sorted_codes (l : move list) = List.sort compare (List.map code_of_move l)
let show_codes l = String.concat "," (List.map (fun c -> show_move (move_of_code c)) l)

(* ---------- PRNG: splitmix64, every random choice derives from one state ---------- *)
type rng = { mutable st : int64 }
let mk_rng seed = { st = Int64.of_int seed }
let next64 r =
  r.st <- Int64.add r.st 0x9E3779B97F4A7C15L;
  let z = r.st in
  let z = Int64.mul (Int64.logxor z (Int64.shift_right_logical z 30)) 0xBF58476D1CE4E5B9L in
  let z = Int64.mul (Int64.logxor z (Int64.shift_right_logical z 27)) 0x94D049BB133111EBL in
  Int64.logxor z (Int64.shift_right_logical z 31)
let rand r n = if n <= 0 then 0 else Int64.to_int (Int64.unsigned_rem (next64 r) (Int64.of_int n))
let chance r num den = rand r den < num
let pick r l = List.nth l (rand r (List.length l))
let hex_of_int64 (v : int64) = Printf.sprintf "%Lx" v
let n_of_int64 v = n_of_hex (hex_of_int64 v)
(* decimal numerals of any size (the counters are 64-bit in the C++ and unbounded in the model; OCaml's int is 63-bit) *)
let n_of_dec (s : string) : n =
  let ten = n_of_int 10 in
  let acc = ref N0 in
  String.iter (fun c -> match c with
      | '0' .. '9' -> acc := N.add (N.mul !acc ten) (n_of_int (Char.code c - 48))
      | _ -> failwith ("bad decimal " ^ s)) s;
  !acc
let rec dec_of_n (x : n) : string =
  (* via the specification's own decimal printer *)
  String.concat "" (List.map (fun c -> String.make 1 (Char.chr (int_of_n c))) (Lcmodel.dec x))

(* ---------- driver subprocess ---------- *)
type drv = { ic : in_channel; oc : out_channel; mutable log : string list (* newest first, since last reset *) }
let open_driver path : drv =
  let ic, oc = Unix.open_process path in
  { ic; oc; log = [] }
exception Driver_died of string
let send (d : drv) (cmd : string) : string =
  d.log <- cmd :: d.log;
  (try output_string d.oc cmd; output_char d.oc '\n'; flush d.oc
   with Sys_error _ -> raise (Driver_died cmd));
  try input_line d.ic with End_of_file -> raise (Driver_died cmd)
let reset_log d = d.log <- []
let script d = List.rev d.log
let toks s = List.filter (fun x -> x <> "") (String.split_on_char ' ' s)

(* ---------- findings ---------- *)
exception Mismatch of string * string          (* kind ("spec" | "model" | "crash"), details *)
let fail_spec fmt = Printf.ksprintf (fun s -> raise (Mismatch ("spec", s))) fmt
(* when a case is re-run "following the specification only" (see run_case) the model comparisons are silent *)
let model_off = ref false
let the_rng : rng option ref = ref None
let fail_model fmt = Printf.ksprintf (fun s -> if !model_off then () else raise (Mismatch ("model", s))) fmt

(* ---------- statistics for the evidence ---------- *)
let counters : (string, int) Hashtbl.t = Hashtbl.create 64
let bump ?(by = 1) k = Hashtbl.replace counters k ((try Hashtbl.find counters k with Not_found -> 0) + by)
let samples : string list ref = ref []
let add_sample s = if List.length !samples < 6 then samples := s :: !samples
let distinct : (string, unit) Hashtbl.t = Hashtbl.create 4096
let note_distinct key = if not (Hashtbl.mem distinct key) then (Hashtbl.add distinct key (); bump "distinct_nontrivial")

let json_escape s =
  let b = Buffer.create (String.length s + 8) in
  String.iter (fun c -> match c with
      | '"' -> Buffer.add_string b "\\\"" | '\\' -> Buffer.add_string b "\\\\" | '\n' -> Buffer.add_string b "\\n"
      | c when Char.code c < 32 -> Buffer.add_string b (Printf.sprintf "\\u%04x" (Char.code c))
      | c -> Buffer.add_char b c) s;
  Buffer.contents b
