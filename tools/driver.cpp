// driver.cpp — executes the correspondence protocol against the library built from /repo's
// current working tree.  One command per line on stdin, exactly one reply line on stdout.
// Compiled together with /repo/src/*.cpp by /verif/check (variants: rel, san, sannd).
#include <bit>
#include <cstdint>
#include <cstdio>
#include <iostream>
#include <iomanip>
#include <sstream>
#include <string>
#include <vector>
#include "libchess/movegen.hpp"
#include "libchess/position.hpp"
#include "libchess/zobrist.hpp"

using namespace libchess;

static std::string hex(std::uint64_t v) {
    char buf[32];
    std::snprintf(buf, sizeof buf, "%llx", static_cast<unsigned long long>(v));
    return buf;
}
static std::string hexstr(const std::string &s) {
    std::string out;
    char buf[4];
    for (unsigned char c : s) {
        std::snprintf(buf, sizeof buf, "%02x", c);
        out += buf;
    }
    if (out.empty()) out = "-";
    return out;
}
static std::string unhex(const std::string &h) {
    std::string out;
    if (h == "-") return out;
    for (std::size_t i = 0; i + 1 < h.size(); i += 2) {
        out += static_cast<char>(std::stoi(h.substr(i, 2), nullptr, 16));
    }
    return out;
}
static int sqi(Square s) {
    return static_cast<int>(s);
}
// our own canonical code of the six accessor results (independent of Move's packing)
static std::uint64_t code(const Move &m) {
    std::uint64_t c = static_cast<std::uint64_t>(m.type());
    c = c * 64 + static_cast<std::uint64_t>(sqi(m.from()));
    c = c * 64 + static_cast<std::uint64_t>(sqi(m.to()));
    c = c * 8 + static_cast<std::uint64_t>(m.piece());
    c = c * 8 + static_cast<std::uint64_t>(m.captured());
    c = c * 8 + static_cast<std::uint64_t>(m.promotion());
    return c;
}
static Move decode(std::uint64_t c) {
    const auto pr = static_cast<Piece>(c % 8);
    c /= 8;
    const auto cap = static_cast<Piece>(c % 8);
    c /= 8;
    const auto pc = static_cast<Piece>(c % 8);
    c /= 8;
    const auto to = Square(static_cast<int>(c % 64));
    c /= 64;
    const auto fr = Square(static_cast<int>(c % 64));
    c /= 64;
    return Move(static_cast<MoveType>(c), fr, to, pc, cap, pr);
}
static void list(std::ostream &os, const std::vector<Move> &v, std::size_t from = 0) {
    os << (v.size() - from);
    for (std::size_t i = from; i < v.size(); ++i) os << ' ' << code(v[i]);
}

int main() {
    std::ios::sync_with_stdio(false);
    Position pos;
    std::string line;
    while (std::getline(std::cin, line)) {
        std::istringstream in(line);
        std::string cmd;
        in >> cmd;
        std::ostringstream os;
        if (cmd == "new" || cmd == "setfen") {
            int d;
            in >> d;
            std::string fen;
            std::getline(in, fen);
            if (!fen.empty() && fen[0] == ' ') fen.erase(0, 1);
            if (cmd == "new") {
                pos = Position(fen, d != 0);
            } else {
                pos.set_fen(fen, d != 0);
            }
            os << "ok";
        } else if (cmd == "make") {
            std::uint64_t c;
            in >> c;
            pos.makemove(decode(c));
            os << "ok";
        } else if (cmd == "maketext") {
            std::string h;
            in >> h;
            try {
                pos.makemove(unhex(h));
                os << "ok";
            } catch (const std::invalid_argument &) {
                os << "throw";
            }
        } else if (cmd == "null") {
            pos.makenull();
            os << "ok";
        } else if (cmd == "undo") {
            pos.undomove();
            os << "ok";
        } else if (cmd == "undonull") {
            pos.undonull();
            os << "ok";
        } else if (cmd == "state") {
            os << "S " << hex(pos.occupancy(Side::White).value()) << ' ' << hex(pos.occupancy(Side::Black).value());
            for (const auto p : pieces) os << ' ' << hex(pos.occupancy(p).value());
            os << ' ' << static_cast<int>(pos.turn());
            os << ' ' << pos.can_castle(Side::White, MoveType::ksc) << ' ' << pos.can_castle(Side::White, MoveType::qsc)
               << ' ' << pos.can_castle(Side::Black, MoveType::ksc) << ' ' << pos.can_castle(Side::Black, MoveType::qsc);
            os << ' ' << sqi(pos.get_castling_square(Side::White, MoveType::ksc)) << ' '
               << sqi(pos.get_castling_square(Side::White, MoveType::qsc)) << ' '
               << sqi(pos.get_castling_square(Side::Black, MoveType::ksc)) << ' '
               << sqi(pos.get_castling_square(Side::Black, MoveType::qsc));
            os << ' ' << sqi(pos.ep()) << ' ' << static_cast<unsigned long long>(pos.halfmoves()) << ' ' << static_cast<unsigned long long>(pos.fullmoves());
            os << ' ' << hex(pos.hash()) << ' ' << hex(pos.calculate_hash()) << ' ' << pos.valid() << ' '
               << pos.history().size();
        } else if (cmd == "pieceon") {
            os << "O";
            for (int i = 0; i < 64; ++i) os << ' ' << static_cast<int>(pos.piece_on(Square(i)));
        } else if (cmd == "hist") {
            const auto &h = pos.history();
            os << "H " << h.size();
            for (std::size_t i = h.size(); i-- > 0;) {  // newest first
                os << " | " << hex(h[i].hash) << ' ' << code(h[i].move) << ' ' << sqi(h[i].ep) << ' '
                   << static_cast<unsigned long long>(h[i].halfmove_clock) << ' ' << h[i].castling[0] << h[i].castling[1] << h[i].castling[2]
                   << h[i].castling[3];
            }
        } else if (cmd == "fen") {
            os << "F " << hexstr(pos.get_fen(false)) << ' ' << hexstr(pos.get_fen(true));
        } else if (cmd == "print") {
            std::ostringstream tmp;
            tmp << pos;
            os << "P " << hexstr(tmp.str());
        } else if (cmd == "moves") {
            os << "M ";
            list(os, pos.legal_moves());
            os << " ; ";
            list(os, pos.legal_captures());
            os << " ; ";
            list(os, pos.legal_noncaptures());
            os << " ; " << pos.count_moves() << " ; ";
            list(os, pos.check_evasions());
        } else if (cmd == "movesinto") {
            std::size_t n;
            in >> n;
            const Move dummy(MoveType::Normal, Square(8), Square(16), Piece::Pawn);
            bool prefix_ok = true;
            os << "I ";
            for (int which = 0; which < 3; ++which) {
                std::vector<Move> v(n, dummy);
                if (which == 0) pos.legal_moves(v);
                if (which == 1) pos.legal_captures(v);
                if (which == 2) pos.legal_noncaptures(v);
                for (std::size_t i = 0; i < n && i < v.size(); ++i) prefix_ok = prefix_ok && v[i] == dummy;
                prefix_ok = prefix_ok && v.size() >= n;
                list(os, v, n);
                os << " ; ";
            }
            os << prefix_ok;
        } else if (cmd == "islegal") {
            os << "L";
            std::uint64_t c;
            while (in >> c) os << ' ' << pos.is_legal(decode(c));
        } else if (cmd == "attacks") {
            os << "A";
            for (const auto s : sides) os << ' ' << hex(pos.squares_attacked(s).value());
            for (const auto s : sides) os << ' ' << hex(pos.king_allowed(s).value());
            os << ' ' << hex(pos.king_allowed().value());
            for (const auto s : sides) os << ' ' << hex(pos.pinned(s).value());
            os << ' ' << hex(pos.pinned().value());
            for (const auto s : sides) os << ' ' << hex(pos.passed_pawns(s).value());
            os << ' ' << hex(pos.passed_pawns().value());
            os << ' ' << hex(pos.checkers().value()) << ' ' << pos.in_check();
        } else if (cmd == "attackers") {
            os << "T";
            for (const auto s : sides) {
                for (int i = 0; i < 64; ++i) {
                    const auto a = pos.attackers(Square(i), s);
                    os << ' ' << hex(a.value());
                    if (pos.square_attacked(Square(i), s) != !a.empty()) os << '!';
                }
            }
        } else if (cmd == "game") {
            os << "G " << pos.threefold() << ' ' << pos.fiftymoves() << ' ' << pos.is_draw() << ' ' << pos.is_checkmate()
               << ' ' << pos.is_stalemate() << ' ' << pos.is_terminal();
        } else if (cmd == "text") {
            os << "X";
            for (const auto &m : pos.legal_moves()) {
                os << ' ' << code(m) << ':' << hexstr(static_cast<std::string>(m)) << ':'
                   << hexstr(pos.move_string(m, false)) << ':' << hexstr(pos.move_string(m, true)) << ':'
                   << hex(pos.predict_hash(m));
            }
        } else if (cmd == "predict1") {
            // predict_hash of one move, nothing else queried
            std::uint32_t c;
            in >> c;
            os << "P " << hex(pos.predict_hash(decode(c)));
        } else if (cmd == "parse") {
            std::string h;
            in >> h;
            try {
                const auto m = pos.parse_move(unhex(h));
                os << "p " << code(m);
            } catch (const std::invalid_argument &) {
                os << "p throw";
            }
        } else if (cmd == "parsesub") {
            // every single-byte substitution of the given text (length x 256 strings): prints the accepted ones
            std::string h;
            in >> h;
            const std::string base = unhex(h);
            os << "U";
            for (std::size_t i = 0; i < base.size(); ++i)
                for (int b = 0; b < 256; ++b) {
                    if (static_cast<unsigned char>(base[i]) == b) continue;
                    std::string t = base;
                    t[i] = static_cast<char>(b);
                    try {
                        const auto m = pos.parse_move(t);
                        os << ' ' << i << ':' << b << ':' << code(m);
                    } catch (const std::invalid_argument &) {
                    }
                }
        } else if (cmd == "makehist") {
            // makemove with an argument that lives inside the position's own history (no copy is taken)
            std::size_t i;
            in >> i;
            pos.makemove(pos.history()[i].move);
            os << "ok";
        } else if (cmd == "parseall") {
            // all 20480 coordinate strings [a-h][1-8][a-h][1-8][nbrq]?: prints the accepted ones
            os << "Q";
            const char promo[] = {0, 'n', 'b', 'r', 'q'};
            for (int f = 0; f < 64; ++f)
                for (int t = 0; t < 64; ++t)
                    for (int k = 0; k < 5; ++k) {
                        std::string s = static_cast<std::string>(Square(f)) + static_cast<std::string>(Square(t));
                        if (k) s += promo[k];
                        try {
                            const auto m = pos.parse_move(s);
                            os << ' ' << (f * 64 + t) * 5 + k << ':' << code(m);
                        } catch (const std::invalid_argument &) {
                        }
                    }
        } else if (cmd == "rt") {
            // round trip: a fresh Position built from get_fen(d) of the current one
            int d;
            in >> d;
            const auto f = pos.get_fen(d != 0);
            const Position q(f, d != 0);
            os << "R " << hexstr(f) << ' ' << hexstr(q.get_fen(d != 0)) << ' ' << q.history().size() << ' '
               << hex(q.hash()) << ' ' << (q.hash() == pos.hash()) << ' ' << q.valid();
            bool same = q.turn() == pos.turn() && q.ep() == pos.ep() && q.halfmoves() == pos.halfmoves() &&
                        q.fullmoves() == pos.fullmoves();
            for (const auto s : sides) same = same && q.occupancy(s) == pos.occupancy(s);
            for (const auto p : pieces) same = same && q.occupancy(p) == pos.occupancy(p);
            for (const auto s : sides)
                for (const auto mt : {MoveType::ksc, MoveType::qsc}) {
                    same = same && q.can_castle(s, mt) == pos.can_castle(s, mt);
                    if (pos.can_castle(s, mt)) same = same && q.get_castling_square(s, mt) == pos.get_castling_square(s, mt);
                }
            os << ' ' << same << " ; ";
            list(os, q.legal_moves());
            os << " ; ";
            list(os, pos.legal_moves());
        } else if (cmd == "perft") {
            int d;
            in >> d;
            os << "N " << pos.perft(d);
        } else if (cmd == "bb") {
            // bb <a hex> <b hex> <sq> <n>
            std::string ah, bh;
            int sq, n;
            in >> ah >> bh >> sq >> n;
            const Bitboard a(std::stoull(ah, nullptr, 16)), b(std::stoull(bh, nullptr, 16));
            const auto s = Square(sq);
            os << "B " << hex((a & b).value()) << ' ' << hex((a | b).value()) << ' ' << hex((a ^ b).value()) << ' '
               << hex((~a).value()) << ' ' << a.count() << ' ' << a.empty() << ' ' << static_cast<bool>(a) << ' '
               << (a == b) << ' ' << (a != b) << ' ' << (a ? sqi(a.lsb()) : -1) << ' ' << (a ? sqi(a.hsb()) : -1) << ' '
               << hex(a.north().value()) << ' ' << hex(a.south().value()) << ' ' << hex(a.east().value()) << ' '
               << hex(a.west().value()) << ' ' << hex(a.adjacent().value()) << ' ' << a.get(s) << ' ';
            auto c = a;
            c.set(s);
            os << hex(c.value()) << ' ' << hex((a & s).value()) << ' ' << hex((a | s).value()) << ' '
               << hex((a ^ s).value()) << ' ' << hex((a << n).value()) << ' ' << hex((a >> n).value()) << ' '
               << hex(Bitboard(s).value());
            auto d = a;
            d &= b;
            auto e = a;
            e |= b;
            auto f = a;
            f ^= b;
            os << ' ' << hex(d.value()) << ' ' << hex(e.value()) << ' ' << hex(f.value());
            auto g1 = a, g2 = a, g3 = a;
            g1 &= s;
            g2 |= s;
            g3 ^= s;
            os << " sqops " << hex(g1.value()) << ' ' << hex(g2.value()) << ' ' << hex(g3.value());
            os << " it";
            for (const auto &x : a) os << ' ' << sqi(x);
        } else if (cmd == "sq") {
            int q;
            in >> q;
            const auto s = Square(q);
            os << "q " << s.rank() << ' ' << s.file() << ' ' << sqi(s.flip()) << ' ' << s.light() << ' ' << s.dark() << ' '
               << hexstr(static_cast<std::string>(s)) << ' ' << sqi(Square(s.file(), s.rank())) << ' '
               << sqi(Square(static_cast<std::string>(s))) << ' ' << static_cast<bool>(s) << ' '
               << static_cast<bool>(squares::OffSq) << ' ' << sqi(squares::OffSq);
            os << ' ' << (s.rank() < 7 ? sqi(s.north()) : -1) << ' ' << (s.rank() > 0 ? sqi(s.south()) : -1) << ' '
               << (q < 63 ? sqi(s.east()) : -1) << ' ' << (q > 0 ? sqi(s.west()) : -1);
            // stream insertion, in a fresh stream and in one that carries sticky numeric formatting flags
            std::ostringstream o1, o2;
            o1 << s;
            o2 << std::hex << std::showbase << std::showpos << std::uppercase << s;
            os << ' ' << hexstr(o1.str()) << ' ' << hexstr(o2.str());
            // a one-shot field width (left and right aligned, with a fill character), octal numerals; the public name table
            std::ostringstream o3, o4, o5;
            o3 << std::left << std::setfill('.') << std::setw(5) << s;
            o4 << std::right << std::setfill('*') << std::setw(6) << s;
            o5 << std::oct << std::showpos << s;
            os << ' ' << hexstr(o3.str()) << ' ' << hexstr(o4.str()) << ' ' << hexstr(o5.str()) << ' ' << hexstr(square_strings[q]);
        } else if (cmd == "between") {
            int a, b;
            in >> a >> b;
            os << "b " << hex(squares_between(Square(a), Square(b)).value());
        } else if (cmd == "mv") {
            // mv t from to piece cap promo  | second move t2 ... for equality
            int t, f, to, p, c, pr, t2, f2, to2, p2, c2, pr2;
            in >> t >> f >> to >> p >> c >> pr >> t2 >> f2 >> to2 >> p2 >> c2 >> pr2;
            const Move m(static_cast<MoveType>(t), Square(f), Square(to), static_cast<Piece>(p), static_cast<Piece>(c),
                         static_cast<Piece>(pr));
            const Move m2(static_cast<MoveType>(t2), Square(f2), Square(to2), static_cast<Piece>(p2),
                          static_cast<Piece>(c2), static_cast<Piece>(pr2));
            os << "m " << std::bit_cast<std::uint32_t>(m) << ' ' << static_cast<int>(m.type()) << ' ' << sqi(m.from()) << ' '
               << sqi(m.to()) << ' ' << static_cast<int>(m.piece()) << ' ' << static_cast<int>(m.captured()) << ' '
               << static_cast<int>(m.promotion()) << ' ' << m.is_capturing() << ' ' << m.is_promoting() << ' '
               << (pr >= 1 && pr <= 4 || pr == 6 ? hexstr(static_cast<std::string>(m)) : std::string("skip")) << ' '
               << (m == m2) << ' ' << (m != m2) << ' ' << static_cast<bool>(m);
            if (pr >= 1 && pr <= 4 || pr == 6) {
                std::ostringstream a1, a2, a3, a4;
                a1 << m;
                a2 << std::hex << std::showbase << std::showpos << std::uppercase << m;
                a3 << std::left << std::setfill('.') << std::setw(8) << m;
                a4 << std::oct << std::right << std::setfill('*') << std::setw(9) << m;
                os << ' ' << hexstr(a1.str()) << ' ' << hexstr(a2.str()) << ' ' << hexstr(a3.str()) << ' ' << hexstr(a4.str());
            } else {
                os << " skip skip skip skip";
            }
        } else if (cmd == "magic") {
            int sq;
            std::string oh;
            in >> sq >> oh;
            const Bitboard occ(std::stoull(oh, nullptr, 16));
            os << "g " << hex(movegen::bishop_moves(Square(sq), occ).value()) << ' '
               << hex(movegen::rook_moves(Square(sq), occ).value()) << ' '
               << hex(movegen::queen_moves(Square(sq), occ).value());
        } else if (cmd == "magicsub") {
            // exhaustive: every subset of the full ray set of sq (bishop: which=0, rook: which=1), xor noise off the
            // rays; prints a 64-bit FNV-style digest of all results plus the count, and the list when asked
            int sq, which, dump;
            std::string rh, nh;
            in >> sq >> which >> rh >> nh >> dump;
            const std::uint64_t rays = std::stoull(rh, nullptr, 16), noise = std::stoull(nh, nullptr, 16);
            std::uint64_t sub = 0, n = 0;
            os << "s";
            do {
                const Bitboard occ(sub | (noise & ~rays));
                const auto r = which ? movegen::rook_moves(Square(sq), occ) : movegen::bishop_moves(Square(sq), occ);
                os << ' ' << hex(r.value());
                n++;
                sub = (sub - rays) & rays;
            } while (sub);
            (void)dump;
        } else if (cmd == "leap") {
            int sq;
            in >> sq;
            os << "l " << hex(movegen::knight_moves(Square(sq)).value()) << ' '
               << hex(movegen::king_moves(Square(sq)).value());
        } else if (cmd == "zob") {
            os << "z " << hex(zobrist::turn_key());
            for (int i = 0; i < 4; ++i) os << ' ' << hex(zobrist::castling_key(i));
            for (int i = 0; i < 64; ++i) os << ' ' << hex(zobrist::ep_key(Square(i)));
            for (const auto p : pieces)
                for (const auto s : sides)
                    for (int i = 0; i < 64; ++i) os << ' ' << hex(zobrist::piece_key(p, s, Square(i)));
        } else if (cmd == "quit") {
            break;
        } else {
            os << "?";
        }
        std::cout << os.str() << '\n' << std::flush;
    }
    return 0;
}
