(* gens.ml — input generators: corpus, Chess960 arrays, synthetic legal-consistent positions, and the
   targeted families aimed at the proofs' case splits.  Everything random derives from one rng. *)
open Lcmodel
open Base

let empty_board () : cell array = Array.make 64 None

let spos_of_array (a : cell array) (turn : side) ?(wk = None) ?(wq = None) ?(bk = None) ?(bq = None) ?(ep = None)
    ?(half = 0) ?(full = 1) () : spos =
  let o = function None -> None | Some q -> Some (n_of_int q) in
  { s_board = Array.to_list a; s_turn = turn; s_wk = o wk; s_wq = o wq; s_bk = o bk; s_bq = o bq; s_ep = o ep;
    s_half = n_of_int half; s_full = n_of_int full }

let fen_string dfrc (p : spos) = string_of_str (fen_of dfrc p)

(* is this spec position in the property's domain, in the given mode? *)
let lc dfrc (p : spos) = legal_consistent dfrc p

(* standard-mode FENs can only describe rights with king on e-file and corner rooks *)
let std_expressible (p : spos) = legal_consistent false p

(* ---------- corpus ---------- *)
let read_corpus (path : string) : (bool * string) list =
  let ic = open_in path in
  let rec go acc = match input_line ic with
    | l ->
      let l = String.trim l in
      if l = "" || l.[0] = '#' then go acc
      else (match String.index_opt l '|' with
          | Some i -> go ((String.sub l 0 i = "1", String.sub l (i + 1) (String.length l - i - 1)) :: acc)
          | None -> go acc)
    | exception End_of_file -> close_in ic; List.rev acc in
  go []

(* keep the corpus entries that are six-field FENs of legal-consistent positions in their mode *)
let usable_corpus (c : (bool * string) list) : (bool * string) list =
  List.filter (fun (d, f) ->
      match of_fen d (str_of_string f) with
      | Some p when lc d p && fen_string d p = f -> true
      | Some p when lc d p ->
        (* non-canonical spelling of a legal-consistent position: still usable *)
        bump "corpus_noncanonical"; true
      | _ -> bump "corpus_skipped_not_legal_consistent"; false) c

(* ---------- Chess960 start arrays by Scharnagl number ---------- *)
let chess960_rank (n : int) : piece array =
  let a = Array.make 8 NoPiece in
  let n2 = n / 4 and b1 = n mod 4 in
  a.(2 * b1 + 1) <- Bishop;
  let n3 = n2 / 4 and b2 = n2 mod 4 in
  a.(2 * b2) <- Bishop;
  let n4 = n3 / 6 and q = n3 mod 6 in
  let free () = List.filter (fun i -> a.(i) = NoPiece) [ 0; 1; 2; 3; 4; 5; 6; 7 ] in
  a.(List.nth (free ()) q) <- Queen;
  let kn = [| (0, 1); (0, 2); (0, 3); (0, 4); (1, 2); (1, 3); (1, 4); (2, 3); (2, 4); (3, 4) |].(n4) in
  let fr = free () in
  a.(List.nth fr (fst kn)) <- Knight;
  a.(List.nth fr (snd kn)) <- Knight;
  (match free () with
   | [ r1; k; r2 ] -> a.(r1) <- Rook; a.(k) <- King; a.(r2) <- Rook
   | _ -> failwith "chess960");
  a

let dfrc_start (nw : int) (nb : int) : spos =
  let w = chess960_rank nw and b = chess960_rank nb in
  let a = empty_board () in
  for f = 0 to 7 do
    a.(f) <- Some (White, w.(f)); a.(8 + f) <- Some (White, Pawn);
    a.(56 + f) <- Some (Black, b.(f)); a.(48 + f) <- Some (Black, Pawn)
  done;
  let rooks r = List.filter (fun f -> r.(f) = Rook) [ 0; 1; 2; 3; 4; 5; 6; 7 ] in
  let wr = rooks w and br = rooks b in
  spos_of_array a White ~wk:(Some (List.nth wr 1)) ~wq:(Some (List.nth wr 0))
    ~bk:(Some (56 + List.nth br 1)) ~bq:(Some (56 + List.nth br 0)) ()

(* ---------- synthetic legal-consistent positions ---------- *)
let king_adjacent a b = Stdlib.abs (a mod 8 - b mod 8) <= 1 && Stdlib.abs (a / 8 - b / 8) <= 1

let random_position (r : rng) ~(dfrc : bool) : spos option =
  let a = empty_board () in
  let turn = if chance r 1 2 then White else Black in
  (* optional castling structure per colour *)
  let rights = Array.make 4 None in
  let place_back (s : side) =
    let base = if s = White then 0 else 56 in
    if chance r 1 2 then begin
      let kf = if dfrc then 1 + rand r 6 else 4 in
      a.(base + kf) <- Some (s, King);
      let idx = if s = White then 0 else 2 in
      if chance r 2 3 then begin
        let rf = if dfrc then kf + 1 + rand r (7 - kf) else 7 in
        a.(base + rf) <- Some (s, Rook); rights.(idx) <- Some (base + rf);
        (* an extra outer/inner rook on the same wing sometimes (KQkq ambiguity in X-FEN) *)
        if dfrc && chance r 1 5 then (let f2 = kf + 1 + rand r (7 - kf) in if a.(base + f2) = None then a.(base + f2) <- Some (s, Rook))
      end;
      if chance r 2 3 then begin
        let rf = if dfrc then rand r kf else 0 in
        a.(base + rf) <- Some (s, Rook); rights.(idx + 1) <- Some (base + rf);
        if dfrc && chance r 1 5 then (let f2 = rand r kf in if a.(base + f2) = None then a.(base + f2) <- Some (s, Rook))
      end;
      true
    end else false in
  let wkp = place_back White and bkp = place_back Black in
  let free () = let l = ref [] in Array.iteri (fun i c -> if c = None then l := i :: !l) a; !l in
  let king_sq s = let k = ref (-1) in Array.iteri (fun i c -> if c = Some (s, King) then k := i) a; !k in
  if not wkp then a.(pick r (free ())) <- Some (White, King);
  if not bkp then begin
    let wk = king_sq White in
    match List.filter (fun q -> not (king_adjacent q wk)) (free ()) with
    | [] -> ()
    | l -> a.(pick r l) <- Some (Black, King)
  end;
  if king_sq Black < 0 then None else begin
    let npieces = rand r 16 in
    for _ = 1 to npieces do
      let s = if chance r 1 2 then White else Black in
      let pc = [| Pawn; Pawn; Pawn; Knight; Bishop; Rook; Queen; Pawn |].(rand r 8) in
      let cands = List.filter (fun q -> pc <> Pawn || (q / 8 >= 1 && q / 8 <= 6)) (free ()) in
      if cands <> [] then a.(pick r cands) <- Some (s, pc)
    done;
    (* en-passant square: a pawn of the side that just moved on its fourth rank, two empty squares behind it *)
    let ep =
      if chance r 1 3 then begin
        let them = if turn = White then Black else White in
        let cands = List.filter (fun q ->
            a.(q) = Some (them, Pawn) &&
            (if them = White then q / 8 = 3 && a.(q - 8) = None && a.(q - 16) = None
             else q / 8 = 4 && a.(q + 8) = None && a.(q + 16) = None)) (List.init 64 (fun i -> i)) in
        match cands with [] -> None | l -> let q = pick r l in Some (if them = White then q - 8 else q + 8)
      end else None in
    (* incl. the boundaries of 8-, 16- and 32-bit counters: a clock stored too narrowly anywhere (history record, FEN
       field) shows within a few plies *)
    let half = [| 0; 0; 0; 1; 7; 8; 30; 99; 100; 150; 0; 1; 7; 8; 30; 99; 100; 150; 254; 255; 256; 65534; 65536; 4294967294 |].(rand r 24) in
    let half = if ep <> None then 0 else half in
    let p = spos_of_array a turn ~wk:rights.(0) ~wq:rights.(1) ~bk:rights.(2) ~bq:rights.(3) ~ep ~half ~full:(if chance r 1 10 then [| 0; 0; 254; 255; 65535; 4294967295 |].(rand r 6) else 1 + rand r 80) () in
    if lc dfrc p then Some p else None
  end

(* ---------- targeted family: castling geometries ---------- *)
(* (king file, K-rook file or none, Q-rook file or none) x one enemy attacker x one blocker *)
let castling_family (r : rng) (count : int) : (bool * spos) list =
  let out = ref [] in
  let tries = ref 0 in
  while List.length !out < count && !tries < count * 20 do
    incr tries;
    let s = if chance r 1 2 then White else Black in
    let base = if s = White then 0 else 56 in
    let a = empty_board () in
    let kf = 1 + rand r 6 in
    a.(base + kf) <- Some (s, King);
    let kr = if chance r 4 5 then Some (kf + 1 + rand r (7 - kf)) else None in
    let qr = if chance r 4 5 then Some (rand r kf) else None in
    (match kr with Some f -> a.(base + f) <- Some (s, Rook) | None -> ());
    (match qr with Some f -> a.(base + f) <- Some (s, Rook) | None -> ());
    let them = if s = White then Black else White in
    (* enemy king far away — one time in three on the f- or d-file at any distance, so that castling gives check with the rook *)
    let ek = if chance r 1 3 then (let rk = if s = White then 2 + rand r 6 else rand r 6 in rk * 8 + (if chance r 1 2 then 5 else 3))
      else (if s = White then 56 else 0) + rand r 8 in
    if a.(ek) = None then begin
      a.(ek) <- Some (them, King);
      (* attacker on ranks 1-3 (from the castling side's point of view), any type *)
      let nat = rand r 3 in
      for _ = 1 to nat do
        let rank = if s = White then rand r 4 else 7 - rand r 4 in
        let q = rank * 8 + rand r 8 in
        let pc = [| Pawn; Knight; Bishop; Rook; Queen |].(rand r 5) in
        if a.(q) = None && (pc <> Pawn || (q / 8 >= 1 && q / 8 <= 6)) then a.(q) <- Some (them, pc)
      done;
      (* a blocker on the back rank sometimes *)
      if chance r 1 3 then begin
        let q = base + rand r 8 in
        if a.(q) = None then a.(q) <- Some ((if chance r 1 2 then s else them), [| Knight; Bishop; Queen; Rook |].(rand r 4))
      end;
      let o f = match f with Some f -> Some (base + f) | None -> None in
      let p = if s = White then spos_of_array a s ~wk:(o kr) ~wq:(o qr) () else spos_of_array a s ~bk:(o kr) ~bq:(o qr) () in
      if lc true p then out := (true, p) :: !out
    end
  done;
  !out

(* ---------- targeted family: en passant under pins and checks ---------- *)
let ep_family (r : rng) (count : int) : (bool * spos) list =
  let out = ref [] in
  let tries = ref 0 in
  while List.length !out < count && !tries < count * 40 do
    incr tries;
    let s = if chance r 1 2 then White else Black in         (* side to move = capturer *)
    let them = if s = White then Black else White in
    let a = empty_board () in
    let pf = rand r 8 in                                        (* file of the pushed pawn *)
    let prank = if s = White then 4 else 3 in                   (* rank index of the pushed pawn *)
    let pushed = prank * 8 + pf in
    let epsq = if s = White then pushed + 8 else pushed - 8 in
    a.(pushed) <- Some (them, Pawn);
    (* one or two capturing pawns *)
    let cands = List.filter (fun f -> f >= 0 && f <= 7) [ pf - 1; pf + 1 ] in
    let both = chance r 1 3 in
    List.iter (fun f -> if both || chance r 3 4 then a.(prank * 8 + f) <- Some (s, Pawn)) cands;
    let free () = let l = ref [] in Array.iteri (fun i c -> if c = None && i <> epsq && i <> (if s = White then epsq + 8 else epsq - 8) then l := i :: !l) a; !l in
    (* kings: bias our king onto the pawn's rank, a diagonal through the capturer or ep square, or the file *)
    let ksq = match rand r 4 with
      | 0 -> prank * 8 + rand r 8
      | 1 -> (rand r 8) * 8 + pf
      | _ -> rand r 64 in
    if a.(ksq) = None && ksq <> epsq then begin
      a.(ksq) <- Some (s, King);
      (* the enemy king: anywhere, or on the rank / file / a diagonal of the pushed pawn (the capture vacates two squares
         and can uncover one of our sliders onto it) *)
      let fr = free () in
      let on_line q = let dx = Stdlib.abs (q mod 8 - pf) and dy = Stdlib.abs (q / 8 - prank) in q <> pushed && (dx = 0 || dy = 0 || dx = dy) in
      let ek = match List.filter on_line fr with l when l <> [] && chance r 1 3 -> pick r l | _ -> pick r fr in
      if not (king_adjacent ek ksq) then begin
        a.(ek) <- Some (them, King);
        let n = 1 + rand r 3 in
        for _ = 1 to n do
          let q = pick r (free ()) in
          let pc = [| Rook; Bishop; Queen; Knight; Rook; Queen |].(rand r 6) in
          a.(q) <- Some ((if chance r 3 5 then them else s), pc)
        done;
        (* one time in three an enemy rook or QUEEN on the pawns' rank (the horizontal discovery when both pawns leave it) *)
        if chance r 1 3 then begin
          match List.filter (fun q -> q / 8 = prank) (free ()) with
          | [] -> ()
          | l -> a.(pick r l) <- Some (them, (if chance r 1 2 then Queen else Rook))
        end;
        let p = spos_of_array a s ~ep:(Some epsq) () in
        if lc true p then out := (true, p) :: !out
      end
    end
  done;
  !out

(* ---------- targeted family: pins in all eight directions, with and without a check ---------- *)
let pin_family (r : rng) (count : int) : (bool * spos) list =
  let out = ref [] in
  let tries = ref 0 in
  let dirs = [| (1, 0); (-1, 0); (0, 1); (0, -1); (1, 1); (1, -1); (-1, 1); (-1, -1) |] in
  while List.length !out < count && !tries < count * 40 do
    incr tries;
    let s = if chance r 1 2 then White else Black in
    let them = if s = White then Black else White in
    let a = empty_board () in
    let kf, kr = if chance r 1 4 then ((if chance r 1 2 then 0 else 7), (if chance r 1 2 then 0 else 7)) else (rand r 8, rand r 8) in
    a.(kr * 8 + kf) <- Some (s, King);
    let npins = 1 + rand r 2 in
    for _ = 1 to npins do
      let dx, dy = dirs.(rand r 8) in
      (* distances over the whole board: one pin in three uses the longest line available from the king *)
      let d1 = if chance r 1 3 then 1 + rand r 6 else 1 + rand r 3 in
      let d2 = d1 + 1 + rand r (if d1 >= 4 then max 1 (7 - d1) else 3) in
      let x1 = kf + dx * d1 and y1 = kr + dy * d1 and x2 = kf + dx * d2 and y2 = kr + dy * d2 in
      if x2 >= 0 && x2 <= 7 && y2 >= 0 && y2 <= 7 && a.(y1 * 8 + x1) = None && a.(y2 * 8 + x2) = None then begin
        let pinned_pc = [| Pawn; Knight; Bishop; Rook; Queen; Pawn |].(rand r 6) in
        if pinned_pc <> Pawn || (y1 >= 1 && y1 <= 6) then begin
          a.(y1 * 8 + x1) <- Some ((if chance r 5 6 then s else them), pinned_pc);
          let slider = if dx = 0 || dy = 0 then (if chance r 1 2 then Rook else Queen) else (if chance r 1 2 then Bishop else Queen) in
          a.(y2 * 8 + x2) <- Some (them, (if chance r 7 8 then slider else Knight))
        end
      end
    done;
    let free () = let l = ref [] in Array.iteri (fun i c -> if c = None then l := i :: !l) a; !l in
    (* sometimes an own piece on the LAST square of a diagonal or line through the king (corner and rim squares, bit 63 / bit 0) *)
    if chance r 1 4 then begin
      let dx, dy = dirs.(rand r 8) in
      let rec far x y = if x + dx >= 0 && x + dx <= 7 && y + dy >= 0 && y + dy <= 7 then far (x + dx) (y + dy) else (x, y) in
      let x, y = far kf kr in
      if (x, y) <> (kf, kr) && a.(y * 8 + x) = None then a.(y * 8 + x) <- Some (s, [| Rook; Knight; Bishop; Queen |].(rand r 4))
    end;
    (* one time in three: one or two direct checkers as well (knight jump, pawn, adjacent-line slider) *)
    if chance r 1 3 then
      for _ = 1 to 1 + rand r 2 do
        match rand r 3 with
        | 0 -> let jumps = [ (1, 2); (2, 1); (-1, 2); (-2, 1); (1, -2); (2, -1); (-1, -2); (-2, -1) ] in
          let dx, dy = List.nth jumps (rand r 8) in
          let x = kf + dx and y = kr + dy in
          if x >= 0 && x <= 7 && y >= 0 && y <= 7 && a.(y * 8 + x) = None then a.(y * 8 + x) <- Some (them, Knight)
        | 1 -> let y = if s = White then kr + 1 else kr - 1 in
          let x = kf + (if chance r 1 2 then 1 else -1) in
          if x >= 0 && x <= 7 && y >= 1 && y <= 6 && a.(y * 8 + x) = None then a.(y * 8 + x) <- Some (them, Pawn)
        | _ -> let dx, dy = dirs.(rand r 8) in
          let d = 1 + rand r 4 in
          let x = kf + dx * d and y = kr + dy * d in
          let inb = x >= 0 && x <= 7 && y >= 0 && y <= 7 in
          let clear = inb && List.for_all (fun i -> a.((kr + dy * i) * 8 + kf + dx * i) = None) (List.init (max 0 (d - 1)) (fun i -> i + 1)) in
          if inb && clear && a.(y * 8 + x) = None then
            a.(y * 8 + x) <- Some (them, (if dx = 0 || dy = 0 then Rook else Bishop))
      done;
    let ek = pick r (free ()) in
    if not (king_adjacent ek (kr * 8 + kf)) then begin
      a.(ek) <- Some (them, King);
      let n = rand r 5 in
      for _ = 1 to n do
        let q = pick r (free ()) in
        let pc = [| Pawn; Knight; Bishop; Rook; Queen |].(rand r 5) in
        if pc <> Pawn || (q / 8 >= 1 && q / 8 <= 6) then a.(q) <- Some ((if chance r 1 2 then s else them), pc)
      done;
      let p = spos_of_array a s () in
      if lc true p then out := (true, p) :: !out
    end
  done;
  !out

(* ---------- targeted family: the side to move has NO legal move (stalemate or mate) or exactly one, although it owns
   pieces that look mobile: pinned pawns with a free square ahead, pinned officers, an en-passant capture as the only move ---------- *)
let no_move_family (r : rng) (count : int) : (bool * spos) list =
  let out = ref [] in
  let tries = ref 0 in
  let dirs = [| (1, 0); (-1, 0); (0, 1); (0, -1); (1, 1); (1, -1); (-1, 1); (-1, -1) |] in
  while List.length !out < count && !tries < count * 400 do
    incr tries;
    let s = if chance r 1 2 then White else Black in
    let them = if s = White then Black else White in
    let a = empty_board () in
    (* our king on the rim or in a corner *)
    let kf, kr = match rand r 3 with 0 -> ((if chance r 1 2 then 0 else 7), (if chance r 1 2 then 0 else 7)) | 1 -> (rand r 8, (if chance r 1 2 then 0 else 7)) | _ -> ((if chance r 1 2 then 0 else 7), rand r 8) in
    let k = kr * 8 + kf in
    a.(k) <- Some (s, King);
    let inb x y = x >= 0 && x <= 7 && y >= 0 && y <= 7 in
    (* the enemy king two squares away, taking flight squares *)
    let cands = List.filter (fun q -> let dx = Stdlib.abs (q mod 8 - kf) and dy = Stdlib.abs (q / 8 - kr) in max dx dy = 2) (List.init 64 (fun i -> i)) in
    let ek = pick r cands in
    a.(ek) <- Some (them, King);
    (* one to three pinned own pieces (pawns preferred) on lines from our king *)
    for _ = 1 to 1 + rand r 3 do
      let dx, dy = dirs.(rand r 8) in
      let d1 = 1 + rand r 2 in
      let d2 = d1 + 1 + rand r 3 in
      let x1 = kf + dx * d1 and y1 = kr + dy * d1 and x2 = kf + dx * d2 and y2 = kr + dy * d2 in
      if inb x2 y2 && a.(y1 * 8 + x1) = None && a.(y2 * 8 + x2) = None then begin
        let pc = [| Pawn; Pawn; Pawn; Knight; Bishop; Rook |].(rand r 6) in
        if pc <> Pawn || (y1 >= 1 && y1 <= 6) then begin
          a.(y1 * 8 + x1) <- Some (s, pc);
          a.(y2 * 8 + x2) <- Some (them, (if dx = 0 || dy = 0 then (if chance r 1 2 then Rook else Queen) else (if chance r 1 2 then Bishop else Queen)))
        end
      end
    done;
    (* a few more enemy pieces to take the remaining flight squares; blocked own pawns *)
    let free () = let l = ref [] in Array.iteri (fun i c -> if c = None then l := i :: !l) a; !l in
    for _ = 1 to rand r 4 do
      let q = pick r (free ()) in
      let pc = [| Knight; Bishop; Rook; Queen; Pawn |].(rand r 5) in
      if pc <> Pawn || (q / 8 >= 1 && q / 8 <= 6) then a.(q) <- Some (them, pc)
    done;
    for _ = 1 to rand r 3 do
      let q = 8 + rand r 48 in
      let ahead = if s = White then q + 8 else q - 8 in
      if a.(q) = None && a.(ahead) = None then begin a.(q) <- Some (s, Pawn); a.(ahead) <- Some (them, [| Pawn; Knight; Bishop |].(rand r 3)) end
    done;
    (* sometimes an en-passant square with a capturer *)
    let ep =
      if chance r 1 4 then begin
        let prank = if s = White then 4 else 3 in
        let pf = rand r 8 in
        let pushed = prank * 8 + pf in
        let epsq = if s = White then pushed + 8 else pushed - 8 in
        let origin = if s = White then pushed + 16 else pushed - 16 in
        let cf = pf + (if chance r 1 2 then 1 else -1) in
        if cf >= 0 && cf <= 7 && a.(pushed) = None && a.(epsq) = None && a.(origin) = None && a.(prank * 8 + cf) = None then begin
          a.(pushed) <- Some (them, Pawn); a.(prank * 8 + cf) <- Some (s, Pawn); Some epsq
        end else None
      end else None in
    let bad_pawn = ref false in
    Array.iteri (fun i c -> match c with Some (_, Pawn) when i < 8 || i >= 56 -> bad_pawn := true | _ -> ()) a;
    if not !bad_pawn then begin
      let p = spos_of_array a s ~ep ~half:(rand r 120) ~full:(1 + rand r 90) () in
      if lc true p && List.length (spec_moves p) <= 1 then out := (true, p) :: !out
    end
  done;
  !out

(* placement fields of maximal length: 32 men, no two adjacent empty squares in any rank (71 characters) *)
let long_placement (r : rng) : spos option =
  let a = empty_board () in
  let men s = [ (s, King); (s, Queen); (s, Rook); (s, Rook); (s, Bishop); (s, Bishop); (s, Knight); (s, Knight) ] @ List.init 8 (fun _ -> (s, Pawn)) in
  (* squares: alternate occupied / empty, the phase chosen per rank *)
  let sqs = List.concat (List.init 8 (fun rk -> let ph = rand r 2 in List.init 4 (fun i -> rk * 8 + 2 * i + ph))) in
  let pawn_ok q = q / 8 >= 1 && q / 8 <= 6 in
  let rec place men sqs = match men with
    | [] -> true
    | (s, pc) :: rest ->
      let cands = List.filter (fun q -> a.(q) = None && (pc <> Pawn || pawn_ok q)) sqs in
      if cands = [] then false else begin a.(pick r cands) <- Some (s, pc); place rest sqs end in
  (* pawns first (they cannot go everywhere) *)
  let order = List.filter (fun (_, pc) -> pc = Pawn) (men White @ men Black) @ List.filter (fun (_, pc) -> pc <> Pawn) (men White @ men Black) in
  if place order sqs then begin
    let p = spos_of_array a (if chance r 1 2 then White else Black) ~half:(rand r 50) ~full:(1 + rand r 90) () in
    if lc true p then Some p else None
  end else None


(* ---------- extreme material: every pawn promoted to the same officer (ten knights / bishops / rooks, nine queens a side) ---------- *)
let material_family (r : rng) (count : int) : (bool * spos) list =
  let out = ref [] in
  let tries = ref 0 in
  while List.length !out < count && !tries < count * 60 do
    incr tries;
    let a = empty_board () in
    let put s pc n = for _ = 1 to n do let q = rand r 64 in if a.(q) = None then a.(q) <- Some (s, pc) done in
    let wk = rand r 64 in a.(wk) <- Some (White, King);
    let bk = rand r 64 in
    if a.(bk) = None && not (king_adjacent wk bk) then begin
      a.(bk) <- Some (Black, King);
      List.iter (fun s ->
          let pc = [| Knight; Bishop; Rook; Queen; Knight |].(rand r 5) in
          let n = if pc = Queen then 9 else 10 in
          (* exactly n of them: keep trying free squares *)
          let placed = ref 0 and guard = ref 0 in
          while !placed < n && !guard < 400 do
            incr guard; let q = rand r 64 in if a.(q) = None then begin a.(q) <- Some (s, pc); incr placed end
          done;
          if chance r 1 2 then put s [| Knight; Bishop; Rook |].(rand r 3) 2) [ White; Black ];
      let p = spos_of_array a (if chance r 1 2 then White else Black) ~half:(rand r 30) ~full:(40 + rand r 60) () in
      if lc true p then out := (true, p) :: !out
    end
  done;
  !out

(* ---------- pushes and promotions that uncover a check along the rank or file the pawn leaves ---------- *)
let discovery_family (r : rng) (count : int) : (bool * spos) list =
  let out = ref [] in
  let tries = ref 0 in
  while List.length !out < count && !tries < count * 60 do
    incr tries;
    let s = if chance r 1 2 then White else Black in
    let them = if s = White then Black else White in
    let a = empty_board () in
    let free () = let l = ref [] in Array.iteri (fun i c -> if c = None then l := i :: !l) a; !l in
    if chance r 1 2 then begin
      (* a pawn on its start rank between our rook/queen and the enemy king on that rank: single and double push uncover *)
      let rk = if s = White then 1 else 6 in
      let pf = 1 + rand r 6 in
      let left = rand r pf and right = pf + 1 + rand r (7 - pf) in
      let slider_f, king_f = if chance r 1 2 then (left, right) else (right, left) in
      a.(rk * 8 + pf) <- Some (s, Pawn);
      a.(rk * 8 + slider_f) <- Some (s, (if chance r 1 2 then Rook else Queen));
      a.(rk * 8 + king_f) <- Some (them, King);
      let k = pick r (List.filter (fun q -> not (king_adjacent q (rk * 8 + king_f))) (free ())) in
      a.(k) <- Some (s, King);
      for _ = 1 to rand r 3 do let q = pick r (free ()) in a.(q) <- Some ((if chance r 1 2 then s else them), [| Knight; Bishop; Rook |].(rand r 3)) done
    end else begin
      (* a pawn on the seventh with the enemy king straight ahead, our rook/queen behind it on the file, and something to
         capture on a neighbouring file of the last rank: capture-promotions (also to knight/bishop) uncover the file *)
      let rk = if s = White then 6 else 1 in
      let last = if s = White then 7 else 0 in
      let pf = rand r 8 in
      a.(rk * 8 + pf) <- Some (s, Pawn);
      a.(last * 8 + pf) <- Some (them, King);
      let behind = (if s = White then rand r 6 else 2 + rand r 6) * 8 + pf in
      if a.(behind) = None then a.(behind) <- Some (s, (if chance r 1 2 then Rook else Queen));
      List.iter (fun f -> if f >= 0 && f <= 7 && chance r 3 4 then a.(last * 8 + f) <- Some (them, [| Rook; Knight; Bishop; Queen |].(rand r 4))) [ pf - 1; pf + 1 ];
      let k = pick r (List.filter (fun q -> not (king_adjacent q (last * 8 + pf))) (free ())) in
      a.(k) <- Some (s, King)
    end;
    let p = spos_of_array a s () in
    if lc true p then out := (true, p) :: !out
  done;
  !out

(* ---------- targeted family: promotions, including capture of a castling rook ---------- *)
let promo_family (r : rng) (count : int) : (bool * spos) list =
  let out = ref [] in
  let tries = ref 0 in
  while List.length !out < count && !tries < count * 40 do
    incr tries;
    let s = if chance r 1 2 then White else Black in
    let them = if s = White then Black else White in
    let a = empty_board () in
    let tbase = if them = White then 0 else 56 in
    (* enemy back rank with castling structure *)
    let kf = 1 + rand r 6 in
    a.(tbase + kf) <- Some (them, King);
    let krf = kf + 1 + rand r (7 - kf) and qrf = rand r kf in
    a.(tbase + krf) <- Some (them, Rook); a.(tbase + qrf) <- Some (them, Rook);
    (* our pawns on the seventh *)
    let prank = if s = White then 6 else 1 in
    for _ = 1 to 1 + rand r 3 do a.(prank * 8 + rand r 8) <- Some (s, Pawn) done;
    let free () = let l = ref [] in Array.iteri (fun i c -> if c = None then l := i :: !l) a; !l in
    for _ = 1 to rand r 4 do
      let q = tbase + rand r 8 in
      if a.(q) = None then a.(q) <- Some (them, [| Knight; Bishop; Queen |].(rand r 3))
    done;
    if chance r 1 2 then begin
      (* a second rook of theirs on the file of one of the castling rooks; two officers of ours somewhere *)
      let f = if chance r 1 2 then krf else qrf in
      let q = (1 + rand r 6) * 8 + f in
      if a.(q) = None then a.(q) <- Some (them, Rook);
      for _ = 1 to 2 do let q = pick r (free ()) in a.(q) <- Some (s, [| Bishop; Knight; Queen; Rook |].(rand r 4)) done
    end;
    let k = pick r (List.filter (fun q -> not (king_adjacent q (tbase + kf))) (free ())) in
    a.(k) <- Some (s, King);
    let p = if them = White then spos_of_array a s ~wk:(Some (tbase + krf)) ~wq:(Some (tbase + qrf)) ()
      else spos_of_array a s ~bk:(Some (tbase + krf)) ~bq:(Some (tbase + qrf)) () in
    if lc true p then out := (true, p) :: !out
  done;
  !out

(* ---------- targeted family: same placement, different castling rook (Chess960): equal hash, different positions ---------- *)
let rook_identity_pairs (r : rng) (count : int) : (spos * spos) list =
  let out = ref [] in
  let tries = ref 0 in
  while List.length !out < count && !tries < count * 40 do
    incr tries;
    let s = if chance r 1 2 then White else Black in
    let them = if s = White then Black else White in
    let base = if s = White then 0 else 56 in
    let a = empty_board () in
    let kf = 2 + rand r 4 in
    a.(base + kf) <- Some (s, King);
    let kingside = chance r 1 2 in
    (* two rooks on one wing *)
    let files = if kingside then List.init (7 - kf) (fun i -> kf + 1 + i) else List.init kf (fun i -> i) in
    if List.length files >= 2 then begin
      let f1 = pick r files in
      let f2 = pick r (List.filter (fun f -> f <> f1) files) in
      a.(base + f1) <- Some (s, Rook); a.(base + f2) <- Some (s, Rook);
      let ek = (if s = White then 56 else 0) + rand r 8 in
      a.(ek) <- Some (them, King);
      for _ = 1 to rand r 3 do
        let q = 16 + rand r 32 in
        if a.(q) = None then a.(q) <- Some ((if chance r 1 2 then s else them), [| Pawn; Knight; Pawn |].(rand r 3))
      done;
      let mk f = let o = Some (base + f) in
        if s = White then (if kingside then spos_of_array a s ~wk:o () else spos_of_array a s ~wq:o ())
        else (if kingside then spos_of_array a s ~bk:o () else spos_of_array a s ~bq:o ()) in
      let pa = mk f1 and pb = mk f2 in
      if lc true pa && lc true pb then out := (pa, pb) :: !out
    end
  done;
  !out

(* ---------- pawn skeletons (C18) ---------- *)
let pawn_skeleton (r : rng) : spos option =
  let a = empty_board () in
  (match rand r 4 with
   | 0 ->
     (* the full complement: one pawn of each colour on every file, ranks independent (pawns may have passed each other) *)
     for f = 0 to 7 do
       let rw = 1 + rand r 6 in
       let rb = let x = 1 + rand r 5 in if x >= rw then x + 1 else x in
       a.(rw * 8 + f) <- Some (White, Pawn); a.(rb * 8 + f) <- Some (Black, Pawn)
     done
   | 1 ->
     (* dense files: several pawns of one colour stacked on a few files, the other colour's home pawns behind them *)
     for _ = 1 to 2 + rand r 3 do
       let f = rand r 8 in
       let c = if chance r 1 2 then White else Black in
       for rk = 1 to 6 do if chance r 2 3 then a.(rk * 8 + f) <- Some ((if chance r 5 6 then c else opp_side c), Pawn) done
     done
   | _ ->
     let n = rand r 17 in
     for _ = 1 to n do
       let q = 8 + rand r 48 in
       a.(q) <- Some ((if chance r 1 2 then White else Black), Pawn)
     done);
  let free () = let l = ref [] in Array.iteri (fun i c -> if c = None then l := i :: !l) a; !l in
  let wk = pick r (free ()) in
  a.(wk) <- Some (White, King);
  match List.filter (fun q -> not (king_adjacent q wk)) (free ()) with
  | [] -> None
  | l ->
    a.(pick r l) <- Some (Black, King);
    let p = spos_of_array a (if chance r 1 2 then White else Black) () in
    if lc true p then Some p else None

(* a mixed stream of start positions: (dfrc flag, spec position, source tag) *)
type source = { mutable corpus : (bool * string) list }

let start_positions (r : rng) (corpus : (bool * string) list) (n : int) : (bool * spos * string) list =
  let out = ref [] in
  let corpus_a = Array.of_list corpus in
  let add d p tag = out := (d, p, tag) :: !out in
  let k = ref 0 in
  while List.length !out < n && !k < n * 30 do
    incr k;
    match rand r 10 with
    | 0 | 1 when Array.length corpus_a > 0 ->
      let d, f = corpus_a.(rand r (Array.length corpus_a)) in
      (match of_fen d (str_of_string f) with Some p -> add d p "corpus" | None -> ())
    | 2 -> add true (dfrc_start (rand r 960) (rand r 960)) "dfrc_start"
    | 3 -> let n1 = rand r 960 in add true (dfrc_start n1 n1) "chess960_start"
    | 4 -> (match random_position r ~dfrc:false with Some p -> add false p "synthetic_std" | None -> ())
    | 5 | 6 -> (match random_position r ~dfrc:true with Some p -> add true p "synthetic_dfrc" | None -> ())
    | 7 -> (match castling_family r 1 with [ (d, p) ] -> add d p "castling_family" | _ -> ())
    | 8 -> (match ep_family r 1 with [ (d, p) ] -> add d p "ep_family" | _ -> ())
    | _ -> (match (if chance r 1 2 then pin_family r 1 else promo_family r 1) with [ (d, p) ] -> add d p "pin_promo_family" | _ -> ())
  done;
  List.rev !out
