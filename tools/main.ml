(* main.ml — the correspondence checker.  One invocation = one property, one shard.
   usage: checker --prop C01 --driver PATH --corpus FILE --seed N --tier quick|thorough --shard I --nshards K
                  --out FILE.json --faildir DIR [--replay SCRIPT] *)
open Lcmodel
open Base
open Sess
open Gens

let prop = ref "C01"
let driver_path = ref ""
let corpus_path = ref ""
let seed = ref 1
let tier = ref "quick"
let shard = ref 0
let nshards = ref 1
let out_path = ref ""
let faildir = ref "."
let replay = ref ""
let budget = ref 0     (* override of the number of cases *)

let violations : (string * string * string) list ref = ref []     (* kind, details, replay path *)

let write_replay (d : drv) (kind : string) (details : string) : string =
  let path = Printf.sprintf "%s/%s_s%d_%d_%d.replay" !faildir !prop !seed !shard (List.length !violations) in
  let oc = open_out path in
  Printf.fprintf oc "# property=%s kind=%s seed=%d shard=%d\n# %s\n" !prop kind !seed !shard
    (String.concat "\n# " (String.split_on_char '\n' details));
  List.iter (fun l -> output_string oc l; output_char oc '\n') (script d);
  close_out oc;
  path

(* run one case; a mismatch is recorded with the script since the last "new" as replay *)
let reuse_chain = ref 0
let force_fresh = ref true

(* wall-clock budget per checker process: once it is used up the remaining cases are skipped (and counted), so that a slow
   or loaded machine gives a smaller exploration instead of a timeout; a hang INSIDE a case is still killed from outside *)
let t_start = Unix.gettimeofday ()
let time_budget () = if !tier = "quick" then 900.0 else 3000.0

let run_case (s : sess) (f : unit -> unit) =
  if Unix.gettimeofday () -. t_start > time_budget () then bump "cases_skipped_time_budget" else begin
  bump "cases";
  let saved = match !the_rng with Some r -> Some r.st | None -> None in
  let record kind details =
    force_fresh := true;
    let path = write_replay s.d kind details in
    violations := (kind, details, path) :: !violations;
    bump ("violations_" ^ kind) in
  try f () with
  | Mismatch ("model", details) when not !model_off ->
    record "model" details;
    (* the C++ left the model without (yet) leaving the specification: run the same case again with the same random
       choices, following the specification only, to see whether the divergence grows into a failing input *)
    (match !the_rng, saved with Some r, Some st -> r.st <- st | _ -> ());
    model_off := true;
    (try f () with
     | Mismatch (kind, d) -> if kind <> "model" then record kind d
     | Driver_died cmd ->
       let path = write_replay s.d "crash" ("driver died (abort, sanitizer report or crash) executing: " ^ cmd) in
       violations := ("crash", "driver died executing: " ^ cmd, path) :: !violations;
       bump "violations_crash"; model_off := false; raise Exit);
    model_off := false
  | Mismatch (kind, details) -> record kind details
  | Driver_died cmd ->
    let path = write_replay s.d "crash" ("driver died (abort, sanitizer report or crash) executing: " ^ cmd) in
    violations := ("crash", "driver died executing: " ^ cmd, path) :: !violations;
    bump "violations_crash";
    raise Exit
  end

(* ---------- what to observe at a node ---------- *)
type plan = {
  p_state : bool; p_hist : bool; p_moves : bool; p_into : bool; p_islegal : bool; p_attacks : bool; p_attackers : bool;
  p_game : bool; p_text : bool; p_predict : bool; p_fen : bool; p_print : bool; p_rt : bool; p_parseall : int;
  p_perft : int; p_predict_cpp : bool; p_maketext : bool;
  undo_pct : int; null_pct : int; depth : int;
}
let none = { p_state = false; p_hist = false; p_moves = false; p_into = false; p_islegal = false; p_attacks = false;
             p_attackers = false; p_game = false; p_text = false; p_predict = false; p_fen = false; p_print = false;
             p_rt = false; p_parseall = 0; p_perft = 0; p_predict_cpp = false; p_maketext = false;
             undo_pct = 10; null_pct = 3; depth = 24 }

let transpositions : (string, string) Hashtbl.t = Hashtbl.create 65536
let hash_owner : (string, string) Hashtbl.t = Hashtbl.create 65536

let core_key (sp : spos) : string =
  (* placement, side, rights held (not which rook), ep square *)
  let f = string_of_str (fen_of false sp) in
  match String.split_on_char ' ' f with a :: b :: c :: d :: _ -> String.concat " " [ a; b; c; d ] | _ -> f

let check_transposition (s : sess) (c : cstate) =
  let key = core_key (sp_of s) and h = hex_of_n c.chash in
  (match Hashtbl.find_opt transpositions key with
   | Some h' when h' <> h -> fail_spec "same position %s reached with hash %s and with hash %s" key h' h
   | Some _ -> bump "transpositions_seen_again"
   | None -> Hashtbl.add transpositions key h);
  (* collision search (C15): a different core under the same hash *)
  let key15 = core_key (strip_dead_ep (sp_of s)) in
  match Hashtbl.find_opt hash_owner h with
  | Some k' when k' <> key15 && core_key (sp_of s) <> k' ->
    if !prop = "C15" then fail_spec "positions %s and %s share the hash %s" k' key15 h
  | Some _ -> ()
  | None -> Hashtbl.add hash_owner h key15

let parseall_expected (s : sess) (spec : move list) =
  let sp = sp_of s in
  let tbl = Hashtbl.create 64 in
  List.iter (fun (m : move) ->
      let k = match m.m_promo with Knight -> 1 | Bishop -> 2 | Rook -> 3 | Queen -> 4 | _ -> 0 in
      Hashtbl.replace tbl ((int_of_n m.m_from * 64 + int_of_n m.m_to) * 5 + k) (code_of_move m)) spec;
  let alias_idx = if sp.s_turn = White then [ ((4 * 64 + 6) * 5, Ksc); ((4 * 64 + 2) * 5, Qsc) ]
    else [ ((60 * 64 + 62) * 5, Ksc); ((60 * 64 + 58) * 5, Qsc) ] in
  let king_home = match find_king sp.s_board sp.s_turn with
    | Some k -> int_of_n k = (if sp.s_turn = White then 4 else 60) | None -> false in
  let foreign_king_on_home =
    (not king_home) && (match at_sq sp.s_board (n_of_int (if sp.s_turn = White then 4 else 60)) with Some (_, King) -> true | _ -> false) in
  (tbl, alias_idx, king_home, foreign_king_on_home)

let obs_parseall (s : sess) (spec : move list) =
  let tbl, alias_idx, king_home, foreign = parseall_expected s spec in
  let line = send s.d "parseall" in
  match toks line with
  | "Q" :: items ->
    let got = Hashtbl.create 64 in
    List.iter (fun it -> match String.split_on_char ':' it with
        | [ i; c ] -> Hashtbl.replace got (int_of_string i) (int_of_string c)
        | _ -> raise (Mismatch ("crash", "bad parseall item"))) items;
    (* every legal move's text is accepted and returns that move *)
    Hashtbl.iter (fun i c ->
        match Hashtbl.find_opt got i with
        | Some c' when c' = c -> ()
        | Some c' ->
          (* an alias may shadow only itself *)
          fail_spec "parse_move of the text of %s returns %s" (show_move (move_of_code c)) (show_move (move_of_code c'))
        | None -> fail_spec "parse_move rejects the text of the legal move %s" (show_move (move_of_code c))) tbl;
    (* everything else is rejected, except the standard castling aliases when the mover's king stands on e1/e8 *)
    Hashtbl.iter (fun i c ->
        if not (Hashtbl.mem tbl i) then begin
          match List.assoc_opt i alias_idx with
          | Some mt when king_home ->
            let m = move_of_code c in
            if m.m_type <> mt || not (List.exists (fun x -> code_of_move x = c) spec) then
              fail_spec "alias string #%d parsed as %s" i (show_move m)
          | Some _ when foreign -> bump "parse_alias_skipped_foreign_king"
          | _ -> fail_spec "parse_move accepts string #%d (not the text of a legal move) as %s" i (show_move (move_of_code c))
        end) got;
    (* aliases must be accepted when applicable *)
    if king_home then
      List.iter (fun (i, mt) ->
          if List.exists (fun (m : move) -> m.m_type = mt) spec && not (Hashtbl.mem got i) then
            fail_spec "castling alias #%d rejected although castling is legal" i) alias_idx;
    bump ~by:20480 "parse_strings";
    (* tie to M for a sample *)
    List.iter (fun (m : move) ->
        match parse_move (cur s).mp (move_text m) with
        | Some m' when code_of_move m' = code_of_move m -> ()
        | _ -> fail_model "model parse_move does not round-trip %s" (show_move m)) spec
  | _ -> raise (Mismatch ("crash", "unparsable parseall line"))

let obs_parse_random (s : sess) (r : rng) (spec : move list) =
  (* arbitrary byte strings and mutated move texts *)
  let mk () =
    match rand r 4 with
    | 0 -> String.init (rand r 7) (fun _ -> Char.chr (33 + rand r 94))
    | 1 -> String.init (4 + rand r 2) (fun i -> if i mod 2 = 0 then Char.chr (97 + rand r 9) else Char.chr (48 + rand r 10))
    | 2 when spec <> [] -> let t = string_of_str (move_text (pick r spec)) in t ^ String.make 1 (Char.chr (97 + rand r 26))
    | _ when spec <> [] -> let t = string_of_str (move_text (pick r spec)) in String.uppercase_ascii t
    | _ -> "0000" in
  (* every single-byte substitution of two legal move texts (length x 255 strings each): accepted only if the result is
     itself a legal move's text or an applicable standard alias *)
  let texts = List.map (fun m -> string_of_str (move_text m)) spec in
  if spec <> [] then
    List.iter (fun base ->
        let line = send s.d ("parsesub " ^ hexstr base) in
        (match toks line with
         | "U" :: items ->
           List.iter (fun it -> match String.split_on_char ':' it with
               | [ i; b; c ] ->
                 let t = Bytes.of_string base in
                 Bytes.set t (int_of_string i) (Char.chr (int_of_string b));
                 let t = Bytes.to_string t in
                 let m = move_of_code (int_of_string c) in
                 if not (List.mem t texts) && not (List.mem t [ "e1g1"; "e1c1"; "e8g8"; "e8c8" ]) then
                   fail_spec "parse_move accepts %S (a one-byte change of the legal text %S) and returns %s" t base (show_move m);
                 if List.mem t texts && string_of_str (move_text m) <> t then fail_spec "parse_move(%S) returns %s" t (show_move m)
               | _ -> ()) items;
           bump ~by:(255 * String.length base) "parse_substitutions"
         | _ -> raise (Mismatch ("crash", "unparsable parsesub line"))))
      [ string_of_str (move_text (pick r spec)); string_of_str (move_text (pick r spec)) ];
  (* a legal text followed by a NUL byte and anything *)
  if spec <> [] then begin
    let str = string_of_str (move_text (pick r spec)) ^ "\000" ^ String.init (rand r 3) (fun _ -> Char.chr (rand r 256)) in
    match toks (send s.d ("parse " ^ hexstr str)) with
    | [ "p"; "throw" ] -> bump "parse_random_strings"
    | _ -> fail_spec "parse_move accepts %S (a legal text followed by a NUL byte)" str
  end;
  (* the four standard castling spellings, always: accepted only as the castling move of that wing of the side to move
     (and only with a king on the e-file home square), whatever rook squares the object remembers *)
  List.iter (fun (str, mt, home, side) ->
      let line = send s.d ("parse " ^ hexstr str) in
      let want = parse_move (cur s).mp (str_of_string str) in
      (match toks line, want with
       | [ "p"; "throw" ], None -> ()
       | [ "p"; c ], Some wm when c <> "throw" && int_of_string c = code_of_move wm ->
         let mv = move_of_code (int_of_string c) in
         if not (List.exists (fun x -> code_of_move x = int_of_string c) spec) then fail_spec "parse_move(%S) returns %s, which is not a legal move" str (show_move mv);
         let sp0 = sp_of s in
         let text_ok = string_of_str (move_text mv) = str in
         let alias_ok = mv.m_type = mt && sp0.s_turn = side && (match at_sq sp0.s_board (n_of_int home) with Some (_, King) -> true | _ -> false) in
         if not (text_ok || alias_ok) then fail_spec "parse_move(%S) returns %s: neither that move's text nor the castling move of that wing of the side to move" str (show_move mv)
       | _ -> fail_model "parse_move(%S) differs from the model's" str);
      bump "parse_alias_strings")
    [ ("e1g1", Ksc, 4, White); ("e1c1", Qsc, 4, White); ("e8g8", Ksc, 60, Black); ("e8c8", Qsc, 60, Black) ];
  for _ = 1 to 12 do
    let str = mk () in
    if not (String.contains str ' ') && str <> "" then begin
      let line = send s.d ("parse " ^ hexstr str) in
      let want = parse_move (cur s).mp (str_of_string str) in
      let texts = List.map (fun m -> string_of_str (move_text m)) spec in
      let is_alias = List.mem str [ "e1g1"; "e1c1"; "e8g8"; "e8c8" ] in
      (match toks line, want with
       | [ "p"; "throw" ], None -> if List.mem str texts then fail_spec "parse_move rejects %S" str
       | [ "p"; c ], Some m when int_of_string c = code_of_move m ->
         if not (List.mem str texts) && not is_alias then fail_spec "parse_move accepts %S" str
       | _ -> fail_model "parse_move(%S) differs from the model's" str);
      bump "parse_random_strings"
    end
  done

let obs_rt (s : sess) =
  List.iter (fun d ->
      (* standard-mode FEN can only express positions with e-file king and corner rooks *)
      if d || std_expressible (sp_of s) then begin
        let line = send s.d (Printf.sprintf "rt %d" (if d then 1 else 0)) in
        match parse_lists line with
        | [ [ "R"; f; f2; hl; _h; same_hash; valid; same ]; m1; m2 ] ->
          if f <> f2 then fail_spec "get_fen of the round-tripped position differs: %S vs %S" (unhexstr f) (unhexstr f2);
          if hl <> "0" then fail_spec "fresh position has a history";
          if same_hash <> "1" then fail_spec "round-tripped position has a different hash";
          if valid <> "1" then fail_spec "round-tripped position is not valid()";
          if same <> "1" then fail_spec "round-tripped position differs in placement/side/rights/ep/clocks";
          if List.sort compare (codes_of_section m1) <> List.sort compare (codes_of_section m2) then
            fail_spec "round-tripped position has different legal moves";
          bump "round_trips"
        | _ -> raise (Mismatch ("crash", "unparsable rt line"))
      end) [ false; true ]

let visit (s : sess) (r : rng) (pl : plan) : move list =
  let c = if pl.p_state then Some (obs_state s) else None in
  (match c with Some c -> check_transposition s c | None -> ());
  if pl.p_hist then ignore (obs_hist s);
  let spec =
    if pl.p_moves then (obs_moves s).spec else spec_moves (sp_of s) in
  note_position s spec;
  if pl.p_into then obs_movesinto s (rand r 5);
  if pl.p_islegal then obs_islegal s r spec;
  if pl.p_attacks then ignore (obs_attacks s);
  if pl.p_attackers then obs_attackers s;
  if pl.p_game then ignore (obs_game s);
  if pl.p_text then ignore (obs_text s ~check_predict:pl.p_predict);
  if pl.p_fen then ignore (obs_fen s);
  if pl.p_print then obs_print s;
  if pl.p_rt then obs_rt s;
  if pl.p_parseall > 0 && rand r 100 < pl.p_parseall then begin obs_parseall s spec; obs_parse_random s r spec end;
  if pl.p_predict_cpp then begin
    (* oracle on the C++ side itself: predict_hash(m) vs hash() after makemove(m) *)
    match toks (send s.d "text") with
    | "X" :: items ->
      List.iter (fun it -> match String.split_on_char ':' it with
          | [ c; _; _; _; ph ] ->
            ignore (send s.d ("make " ^ c));
            let st = get_state s in
            ignore (send s.d "undo");
            if hex_of_n st.chash <> ph then
              fail_spec "predict_hash(%s) = %s, hash() after makemove = %s" (show_move (move_of_code (int_of_string c))) ph (hex_of_n st.chash);
            bump "predict_vs_cpp_make"
          | _ -> ()) items
    | _ -> ()
  end;
  if pl.p_perft > 0 then begin
    let d = pl.p_perft in
    let before = send s.d "state" and hb = send s.d "hist" in
    let line = send s.d (Printf.sprintf "perft %d" d) in
    let after = send s.d "state" and ha = send s.d "hist" in
    let want = int_of_n (spec_perft (nat_of_int d) (sp_of s)) in
    (match toks line with
     | [ "N"; v ] -> if int_of_string v <> want then fail_spec "perft(%d) = %s, the rules give %d" d v want
     | _ -> raise (Mismatch ("crash", "perft line")));
    if before <> after || hb <> ha then fail_spec "perft(%d) changed the position or its history" d;
    bump "perft_calls"; bump ~by:want "perft_nodes"
  end;
  spec

(* choose a move with a bias towards the interesting kinds *)
let choose (r : rng) (sp : spos) (spec : move list) : move =
  let rooks = List.filter_map (fun x -> x) [ sp.s_wk; sp.s_wq; sp.s_bk; sp.s_bq ] in
  let special = List.filter (fun (m : move) ->
      (match m.m_type with Normal -> false | _ -> true) || m.m_piece = King || List.mem m.m_from rooks || List.mem m.m_to rooks) spec in
  if special <> [] && chance r 1 2 then pick r special else pick r spec

(* a random walk with interleaved undo / null moves *)
let walk (s : sess) (r : rng) (pl : plan) =
  let spec = ref (visit s r pl) in
  let steps = ref 0 in
  (* saved raw dumps at push, compared at the matching pop (C03's oracle, independent of M) *)
  let saved : (string * string * string) list ref = ref [] in
  let snapshot () = (send s.d "state", send s.d "hist", if pl.p_moves then send s.d "moves" else "") in
  while !steps < pl.depth do
    incr steps;
    let can_undo = List.length s.stack > 1 in
    let x = rand r 100 in
    let in_check = spec_in_check (sp_of s) in
    if can_undo && x < pl.undo_pct then begin
      (* pop one or several *)
      let k = 1 + rand r (min 4 (List.length s.stack - 1)) in
      for _ = 1 to k do
        match !saved with
        | (st, hi, tag) :: rest ->
          let null = tag = "null" in
          ignore (op_undo s ~null);
          saved := rest;
          let st', hi' = send s.d "state", send s.d "hist" in
          if st' <> st || hi' <> hi then fail_spec "after undo the position differs from the one saved before the move:\n before: %s\n after:  %s" st st';
          bump "pops_compared"
        | [] -> ()
      done;
      spec := visit s r pl
    end else if x < pl.undo_pct + pl.null_pct && not in_check then begin
      let st, hi, _ = snapshot () in
      saved := (st, hi, "null") :: !saved;
      op_null s;
      bump "null_moves";
      spec := visit s r pl
    end else begin
      match !spec with
      | [] -> steps := pl.depth
      | l ->
        let m = choose r (sp_of s) l in
        let st, hi, _ = snapshot () in
        saved := (st, hi, "move") :: !saved;
        if pl.p_maketext && chance r 1 2 then begin
          s.ops <- s.ops + 1;
          let txt = string_of_str (move_text m) in
          let reply = send s.d ("maketext " ^ hexstr txt) in
          if reply <> "ok" then fail_spec "makemove(%S) threw on a legal move" txt;
          let n = cur s in
          s.stack <- { mp = (match makemove_str s.keys n.mp (str_of_string txt) with Some p -> p | None -> n.mp); sg = g_move n.sg m } :: s.stack;
          bump "maketext"
        end else op_make s m;
        bump ("made_" ^ string_of_int (int_of_mtype m.m_type));
        spec := visit s r pl
    end
  done;
  (* unwind everything, comparing at every pop *)
  List.iter (fun (st, hi, tag) ->
      ignore (op_undo s ~null:(tag = "null"));
      let st', hi' = send s.d "state", send s.d "hist" in
      if st' <> st || hi' <> hi then fail_spec "after undo the position differs from the one saved before the move:\n before: %s\n after:  %s" st st';
      bump "pops_compared") !saved;
  if pl.p_state then ignore (obs_state s)

(* a case starts on a fresh Position object or — one time in three, at most three times in a row — by set_fen on the
   object the previous case left behind (whatever its position, mode and history): C07 says that must make no
   difference, and every property is entitled to rely on it.  After a disagreement the next case starts fresh. *)
(* before the random walk: every SPECIAL move of the start position (castling, en passant, promotions, double pushes,
   king and rook moves, captures of a rook or by the king — where rights, clocks, hash keys and check detection have their
   corner cases) and two ordinary ones are made, observed and undone, so that a family position exercises the move it was
   built for and not only a random sample of its moves *)
let root_children (s : sess) (r : rng) (pl : plan) =
  let spec = spec_moves (sp_of s) in
  let special (m : move) =
    (match m.m_type with Normal -> false | _ -> true) || m.m_piece = King || m.m_piece = Rook || m.m_cap = Rook in
  let sp, ord = List.partition special spec in
  let sp = if List.length sp > 14 then List.filteri (fun i _ -> i mod (1 + List.length sp / 14) = rand r 2 || i < 2) sp else sp in
  let ord = match ord with [] -> [] | l -> [ pick r l; pick r l ] in
  List.iter (fun m ->
      let st, hi = send s.d "state", send s.d "hist" in
      op_make s m;
      bump "root_children";
      ignore (visit s r pl);
      ignore (op_undo s ~null:false);
      let st', hi' = send s.d "state", send s.d "hist" in
      if st' <> st || hi' <> hi then fail_spec "after undo of %s the position differs from the one saved before the move:\n before: %s\n after:  %s" (show_move m) st st') (sp @ ord)

let prefer_reuse = ref false      (* set for families whose point is what the previous position left in the object *)
let start (s : sess) (d : bool) (p : spos) =
  let reuse = (not !force_fresh) && s.stack <> [] &&
              (if !prefer_reuse then !reuse_chain < 12 else !reuse_chain < 3 && (match !the_rng with Some r -> chance r 1 3 | None -> false)) in
  if reuse then begin incr reuse_chain; bump "starts_on_reused_object"; op_setfen s d (fen_string d p) end
  else begin reuse_chain := 0; force_fresh := false; op_new s d (fen_string d p) end

(* ---------- raw value-type checks (C14, C15, C16, C17) ---------- *)
let hexn = hex_of_n

let c16_word (s : sess) (a : n) (b : n) (sq : int) (k : int) =
  let line = send s.d (Printf.sprintf "bb %s %s %d %d" (hexn a) (hexn b) sq k) in
  let nsq = n_of_int sq in
  let mem x i = List.nth (bits_of_n x @ List.init 64 (fun _ -> false)) i in
  let ref_set f = n_of_bits (List.init 64 f) in
  match toks line with
  | "B" :: land_ :: lor_ :: lxor_ :: not_ :: cnt :: empty :: nonempty :: eq :: ne :: lsb :: hsb :: no :: so :: ea :: we :: adj :: get
    :: set :: ands :: ors :: xors :: shl :: shr :: single :: aa :: oa :: xa :: "sqops" :: sqa :: sqo :: sqx :: "it" :: iter ->
    let want name got v = if got <> v then fail_spec "Bitboard %s: C++ %s, set semantics say %s (a=%s b=%s sq=%d n=%d)" name got v (hexn a) (hexn b) sq k in
    (* per-square reference *)
    want "&" land_ (hexn (ref_set (fun i -> mem a i && mem b i)));
    want "|" lor_ (hexn (ref_set (fun i -> mem a i || mem b i)));
    want "^" lxor_ (hexn (ref_set (fun i -> mem a i <> mem b i)));
    want "~" not_ (hexn (ref_set (fun i -> not (mem a i))));
    let members = List.filter (mem a) (List.init 64 (fun i -> i)) in
    want "count" cnt (string_of_int (List.length members));
    want "empty" empty (if members = [] then "1" else "0");
    want "bool" nonempty (if members = [] then "0" else "1");
    want "==" eq (if a = b then "1" else "0"); want "!=" ne (if a = b then "0" else "1");
    want "lsb" lsb (match members with [] -> "-1" | x :: _ -> string_of_int x);
    want "hsb" hsb (match List.rev members with [] -> "-1" | x :: _ -> string_of_int x);
    let shift df dr = ref_set (fun i -> let f = i mod 8 - df and r = i / 8 - dr in f >= 0 && f <= 7 && r >= 0 && r <= 7 && mem a (r * 8 + f)) in
    want "north" no (hexn (shift 0 1)); want "south" so (hexn (shift 0 (-1)));
    want "east" ea (hexn (shift 1 0)); want "west" we (hexn (shift (-1) 0));
    want "adjacent" adj (hexn (ref_set (fun i -> List.exists (fun (df, dr) -> (df, dr) <> (0, 0) &&
                                                                              (let f = i mod 8 - df and r = i / 8 - dr in f >= 0 && f <= 7 && r >= 0 && r <= 7 && mem a (r * 8 + f)))
                                          [ (-1, -1); (-1, 0); (-1, 1); (0, -1); (0, 1); (1, -1); (1, 0); (1, 1) ])));
    want "get" get (if mem a sq then "1" else "0");
    want "set" set (hexn (ref_set (fun i -> mem a i || i = sq)));
    want "&sq" ands (hexn (ref_set (fun i -> mem a i && i = sq)));
    want "|sq" ors (hexn (ref_set (fun i -> mem a i || i = sq)));
    want "^sq" xors (hexn (ref_set (fun i -> mem a i <> (i = sq))));
    want "<<" shl (hexn (ref_set (fun i -> i - k >= 0 && mem a (i - k))));
    want ">>" shr (hexn (ref_set (fun i -> i + k <= 63 && mem a (i + k))));
    want "Bitboard(sq)" single (hexn (ref_set (fun i -> i = sq)));
    want "&=" aa land_; want "|=" oa lor_; want "^=" xa lxor_;
    (* the compound assignments with a Square operand — on a member and on a non-member *)
    want "&= sq" sqa ands; want "|= sq" sqo ors; want "^= sq" sqx xors;
    if List.map int_of_string iter <> members then fail_spec "iteration over %s yields %s" (hexn a) (String.concat " " iter);
    (* tie to M *)
    let tie name got v = if got <> v then fail_model "Bitboard %s differs from the model's (a=%s)" name (hexn a) in
    tie "&" land_ (hexn (bb_and a b)); tie "|" lor_ (hexn (bb_or a b)); tie "^" lxor_ (hexn (bb_xor a b)); tie "~" not_ (hexn (bb_not a));
    tie "count" cnt (string_of_int (int_of_n (bb_count a)));
    if members <> [] then begin tie "lsb" lsb (string_of_int (int_of_n (bb_lsb a))); tie "hsb" hsb (string_of_int (int_of_n (bb_hsb a))) end;
    tie "north" no (hexn (north a)); tie "south" so (hexn (south a)); tie "east" ea (hexn (east a)); tie "west" we (hexn (west a));
    tie "adjacent" adj (hexn (adjacent a)); tie "get" get (if bb_get a nsq then "1" else "0"); tie "set" set (hexn (bb_set a nsq));
    tie "<<" shl (hexn (shl64 a (n_of_int k))); tie ">>" shr (hexn (shr64 a (n_of_int k)));
    if List.map n_of_int members <> bb_squares a then fail_model "iterator differs from the model's";
    bump "bitboard_words"; bump ~by:30 "evaluations"
  | _ -> raise (Mismatch ("crash", "unparsable bb line: " ^ line))

let run_c16 (s : sess) (r : rng) =
  let budget = if !budget > 0 then !budget else if !tier = "quick" then 100_000 else 10_000_000 in
  run_case s (fun () ->
      reset_log s.d;
      (* squares *)
      for q = 0 to 63 do
        let line = send s.d (Printf.sprintf "sq %d" q) in
        (match toks line with
         | [ "q"; rk; fl; flip; light; dark; name; fr; fromstr; valid; offvalid; off; no; so; ea; we; os1; os2; os3; os4; os5; tbl ] ->
           if unhexstr os3 <> sq_name q ^ "..." || unhexstr os4 <> "****" ^ sq_name q || unhexstr os5 <> sq_name q then
             fail_spec "Square(%d) inserted with a field width / octal flags reads %S (left, width 5, fill '.'), %S (right, width 6, fill '*'), %S (oct|showpos); the name is %S"
               q (unhexstr os3) (unhexstr os4) (unhexstr os5) (sq_name q);
           if unhexstr tbl <> sq_name q then fail_spec "square_strings[%d] = %S, the square is %S" q (unhexstr tbl) (sq_name q);
           if unhexstr os1 <> sq_name q || unhexstr os2 <> sq_name q then
             fail_spec "Square(%d) inserted into a stream reads %S (fresh stream) / %S (stream with hex|showbase|showpos|uppercase set), expected %S" q (unhexstr os1) (unhexstr os2) (sq_name q);
           let i = int_of_string in
           if i rk <> q / 8 || i fl <> q mod 8 then fail_spec "Square(%d): rank %s file %s" q rk fl;
           if i flip <> (7 - q / 8) * 8 + q mod 8 then fail_spec "Square(%d).flip() = %s" q flip;
           if unhexstr name <> sq_name q then fail_spec "Square(%d) prints as %s" q (unhexstr name);
           if i fr <> q || i fromstr <> q then fail_spec "Square(%d) does not round-trip through (file,rank) / text" q;
           if light = dark then fail_spec "light/dark";
           if valid <> "1" || offvalid <> "0" || off <> "255" then fail_spec "Square validity / OffSq";
           let nb v d ok = if ok && i v <> q + d then fail_spec "Square(%d) step gives %s" q v in
           nb no 8 (q / 8 < 7); nb so (-8) (q / 8 > 0); nb ea 1 (q < 63); nb we (-1) (q > 0);
           let nq = n_of_int q in
           if int_of_n (sq_rank nq) <> i rk || int_of_n (sq_file nq) <> i fl || int_of_n (sq_flip nq) <> i flip
              || string_of_str (sq_string nq) <> unhexstr name || (q / 8 < 7 && int_of_n (sq_north nq) <> i no)
              || (q / 8 > 0 && int_of_n (sq_south nq) <> i so) || (q < 63 && int_of_n (sq_east nq) <> i ea) || (q > 0 && int_of_n (sq_west nq) <> i we)
           then fail_model "Square(%d) differs from the model's" q;
           bump "squares"; bump ~by:12 "evaluations"
         | _ -> raise (Mismatch ("crash", "unparsable sq line")))
      done;
      (* all 4096 pairs: squares_between *)
      for a = 0 to 63 do
        for b = 0 to 63 do
          let line = send s.d (Printf.sprintf "between %d %d" a b) in
          match toks line with
          | [ "b"; v ] ->
            let want = hexn (set_of_squares (between (n_of_int a) (n_of_int b))) in
            if v <> want then fail_spec "squares_between(%s,%s) = %s, geometry says %s" (sq_name a) (sq_name b) v want;
            if v <> hexn (squares_between (n_of_int a) (n_of_int b)) then fail_model "squares_between differs from the model's";
            bump "square_pairs"; bump "evaluations"
          | _ -> raise (Mismatch ("crash", "unparsable between line"))
        done
      done;
      (* all one- and two-element sets *)
      let one i = n_of_bits (List.init 64 (fun j -> j = i)) in
      for i = 0 to 63 do
        c16_word s (one i) (one ((i * 7 + 3) mod 64)) i (i mod 64);
        note_distinct ("1:" ^ string_of_int i);
        for j = i + 1 to 63 do
          if (i + j + !shard) mod !nshards = 0 then begin
            c16_word s (n_of_bits (List.init 64 (fun k -> k = i || k = j))) (one j) j ((i + j) mod 64);
            note_distinct (Printf.sprintf "2:%d:%d" i j)
          end
        done
      done;
      (* edge words and random words *)
      let special = [ 0L; -1L; 0x0101010101010101L; 0x8080808080808080L; 0xffL; 0xff00000000000000L; 0x8000000000000000L; 1L;
                      0x7fffffffffffffffL; 0xfefefefefefefefeL; 0x7f7f7f7f7f7f7f7fL ] in
      List.iter (fun a -> List.iter (fun b -> c16_word s (n_of_int64 a) (n_of_int64 b) (rand r 64) (rand r 64)) special) special;
      let per = budget / !nshards / 30 in
      for _ = 1 to per do
        let a = next64 r in
        let a = match rand r 4 with 0 -> Int64.logand a (next64 r) | 1 -> Int64.logor a (next64 r) | _ -> a in
        c16_word s (n_of_int64 a) (n_of_int64 (next64 r)) (rand r 64) (rand r 64);
        note_distinct (hex_of_int64 a)
      done;
      add_sample (Printf.sprintf "bb %s %s 17 9" (hex_of_int64 (next64 r)) (hex_of_int64 (next64 r))))

let run_c17 (s : sess) (r : rng) =
  let quick = !tier = "quick" in
  run_case s (fun () ->
      reset_log s.d;
      let one t f to_ p c pr (t2, f2, to2, p2, c2, pr2) =
        let line = send s.d (Printf.sprintf "mv %d %d %d %d %d %d %d %d %d %d %d %d" t f to_ p c pr t2 f2 to2 p2 c2 pr2) in
        match toks line with
        | [ "m"; raw; gt; gf; gto; gp; gc; gpr; iscap; ispromo; txt; eq; ne; _nz; s1; s2; s3; s4 ] ->
          if txt <> "skip" then begin
            let w = unhexstr txt in
            let pad c n x left = let k = max 0 (n - String.length x) in if left then x ^ String.make k c else String.make k c ^ x in
            if unhexstr s1 <> w || unhexstr s2 <> w || unhexstr s3 <> pad '.' 8 w true || unhexstr s4 <> pad '*' 9 w false then
              fail_spec "Move %S inserted into a stream reads %S (fresh), %S (hex|showbase|showpos|uppercase), %S (left, width 8, fill '.'), %S (oct, right, width 9, fill '*')"
                w (unhexstr s1) (unhexstr s2) (unhexstr s3) (unhexstr s4)
          end;
          let i = int_of_string in
          if i gt <> t || i gf <> f || i gto <> to_ || i gp <> p || i gc <> c || i gpr <> pr then
            fail_spec "Move(%d,%d,%d,%d,%d,%d) reads back as (%s,%s,%s,%s,%s,%s)" t f to_ p c pr gt gf gto gp gc gpr;
          let same = (t, f, to_, p, c, pr) = (t2, f2, to2, p2, c2, pr2) in
          if (eq = "1") <> same || (ne = "1") = same then fail_spec "Move equality wrong for (%d,%d,%d,%d,%d,%d) vs (%d,%d,%d,%d,%d,%d)" t f to_ p c pr t2 f2 to2 p2 c2 pr2;
          if (iscap = "1") <> (t = 1 || t = 3 || t = 7) then fail_spec "is_capturing wrong for type %d" t;
          if (ispromo = "1") <> (t = 6 || t = 7) then fail_spec "is_promoting wrong for type %d" t;
          if txt <> "skip" then begin
            let want = sq_name f ^ sq_name to_ ^ (match pr with 1 -> "n" | 2 -> "b" | 3 -> "r" | 4 -> "q" | _ -> "") in
            if unhexstr txt <> want then fail_spec "Move text %S, expected %S" (unhexstr txt) want
          end;
          let m = { m_type = mtypes_arr.(t); m_from = n_of_int f; m_to = n_of_int to_; m_piece = piece_of_int p; m_cap = piece_of_int c; m_promo = piece_of_int pr } in
          if i raw <> int_of_n (pack_move std_layout m) then fail_model "packed value %s differs from the model's %d" raw (int_of_n (pack_move std_layout m));
          bump "evaluations"
        | _ -> raise (Mismatch ("crash", "unparsable mv line: " ^ line)) in
      (* the second move of an equality query: equal, or different in exactly one field — by +1, by a random other value,
         or by ONE BIT of that field (a comparison that drops a bit of one field is then seen) — or unrelated *)
      let vary v n =
        match rand r 3 with
        | 0 -> (v + 1) mod n
        | 1 -> let w = rand r (n - 1) in if w >= v then w + 1 else w
        | _ -> let rec go k = if k = 0 then (v + 1) mod n else let w = v lxor (1 lsl (rand r 6)) in if w < n && w <> v then w else go (k - 1) in go 8 in
      let other t f to_ p c pr =
        match rand r 8 with
        | 0 -> (t, f, to_, p, c, pr)
        | 1 -> (vary t 8, f, to_, p, c, pr) | 2 -> (t, vary f 64, to_, p, c, pr) | 3 -> (t, f, vary to_ 64, p, c, pr)
        | 4 -> (t, f, to_, vary p 7, c, pr) | 5 -> (t, f, to_, p, vary c 7, pr) | 6 -> (t, f, to_, p, c, vary pr 7)
        | _ -> (rand r 8, rand r 64, rand r 64, rand r 7, rand r 7, rand r 7) in
      (* every single-bit change of every field of one move *)
      let all_bitflips t f to_ p c pr =
        let fl v n k = List.filter_map (fun b -> let w = v lxor (1 lsl b) in if w < n then Some (k w) else None) [ 0; 1; 2; 3; 4; 5 ] in
        fl t 8 (fun w -> (w, f, to_, p, c, pr)) @ fl f 64 (fun w -> (t, w, to_, p, c, pr)) @ fl to_ 64 (fun w -> (t, f, w, p, c, pr))
        @ fl p 7 (fun w -> (t, f, to_, w, c, pr)) @ fl c 7 (fun w -> (t, f, to_, p, w, pr)) @ fl pr 7 (fun w -> (t, f, to_, p, c, w)) in
      if quick then begin
        (* boundaries of every field crossed with each other, then random combinations *)
        let bs n = [ 0; 1; n / 2; n - 2; n - 1 ] in
        List.iter (fun t -> List.iter (fun f -> List.iter (fun to_ -> List.iter (fun p -> List.iter (fun c -> List.iter (fun pr ->
            one t f to_ p c pr (other t f to_ p c pr);
            if (t + f + to_ + p + c + pr) mod !nshards = !shard then List.iter (one t f to_ p c pr) (all_bitflips t f to_ p c pr))
            [ 0; 3; 6 ]) [ 0; 3; 6 ]) [ 0; 3; 6 ]) (bs 64)) (bs 64)) [ 0; 1; 2; 3; 4; 5; 6; 7 ];
        let n = (if !budget > 0 then !budget else 500_000) / !nshards in
        for _ = 1 to n do
          let t, f, to_, p, c, pr = (rand r 8, rand r 64, rand r 64, rand r 7, rand r 7, rand r 7) in
          one t f to_ p c pr (other t f to_ p c pr);
          note_distinct (Printf.sprintf "%d.%d.%d.%d.%d.%d" t f to_ p c pr)
        done
      end else begin
        for t = 0 to 7 do for f = 0 to 63 do
            if (t * 64 + f) mod !nshards = !shard then
              for to_ = 0 to 63 do for p = 0 to 6 do for c = 0 to 6 do for pr = 0 to 6 do
                        one t f to_ p c pr (other t f to_ p c pr); bump "distinct_nontrivial";
                        if (to_ + p + c + pr) land 15 = 0 then List.iter (one t f to_ p c pr) (all_bitflips t f to_ p c pr)
                      done done done done
          done done
      end;
      add_sample "mv 7 52 61 0 3 4  (promo_capture e7xf8=Q) vs a one-field variation")

let subsets_of (mask : int64) (f : int64 -> unit) =
  let sub = ref 0L in
  let continue = ref true in
  while !continue do
    f !sub;
    sub := Int64.logand (Int64.sub !sub mask) mask;
    if !sub = 0L then continue := false
  done

let run_c14 (s : sess) (r : rng) =
  run_case s (fun () ->
      reset_log s.d;
      (* the very FIRST slider lookups of this process, with the extreme occupancies (full board, empty board, only the own
         square, everything but the own square): a lazily built table or a per-square cache with a sentinel shows here *)
      for sq = 63 downto 0 do
        let nsq = n_of_int sq in
        let occs = [ n_of_hex "ffffffffffffffff"; N0; bit nsq; not64 (bit nsq) ] in
        let occ = List.nth occs ((sq + !shard) mod 4) in
        (match toks (send s.d (Printf.sprintf "magic %d %s" sq (hexn occ))) with
         | [ "g"; b; rk; q ] ->
           let wb = calc_bishop_moves nsq occ and wr = calc_rook_moves nsq occ in
           if b <> hexn wb || rk <> hexn wr || q <> hexn (N.coq_lor wb wr) then
             fail_spec "first lookup of the process: bishop/rook/queen_moves(%s, %s) = %s / %s / %s, the ray walk gives %s / %s / %s" (sq_name sq) (hexn occ) b rk q (hexn wb) (hexn wr) (hexn (N.coq_lor wb wr));
           bump ~by:3 "evaluations"
         | _ -> raise (Mismatch ("crash", "magic line")))
      done;
      for sq = 0 to 63 do
        if sq mod !nshards = !shard then begin
          let nsq = n_of_int sq in
          (* leapers *)
          (match toks (send s.d (Printf.sprintf "leap %d" sq)) with
           | [ "l"; kn; kg ] ->
             let geo offs = set_of_squares (List.filter_map (fun (df, dr) ->
                 let f = sq mod 8 + df and rk = sq / 8 + dr in if f >= 0 && f <= 7 && rk >= 0 && rk <= 7 then Some (n_of_int (rk * 8 + f)) else None) offs) in
             let wk = geo [ (1, 2); (2, 1); (-1, 2); (-2, 1); (1, -2); (2, -1); (-1, -2); (-2, -1) ] in
             let wg = geo [ (1, 0); (-1, 0); (0, 1); (0, -1); (1, 1); (1, -1); (-1, 1); (-1, -1) ] in
             if kn <> hexn wk then fail_spec "knight_moves(%s) = %s" (sq_name sq) kn;
             if kg <> hexn wg then fail_spec "king_moves(%s) = %s" (sq_name sq) kg;
             if kn <> hexn (knight_moves nsq) || kg <> hexn (king_moves nsq) then fail_model "leaper masks differ from the model's";
             bump ~by:2 "evaluations"
           | _ -> raise (Mismatch ("crash", "leap line")));
          (* sliders: every subset of the full ray set, with off-ray noise *)
          List.iter (fun which ->
              let rays = if which = 0 then calc_bishop_moves nsq N0 else calc_rook_moves nsq N0 in
              let rays64 = Int64.of_string ("0x" ^ hexn rays) in
              let noise = next64 r in
              let line = send s.d (Printf.sprintf "magicsub %d %d %s %s 0" sq which (hexn rays) (hex_of_int64 noise)) in
              match toks line with
              | "s" :: vals ->
                let vals = ref vals in
                subsets_of rays64 (fun sub ->
                    match !vals with
                    | v :: rest ->
                      vals := rest;
                      let occ = n_of_int64 sub in
                      (* geometric definition: walk each ray up to and including the first occupied square *)
                      let want = if which = 0 then calc_bishop_moves nsq occ else calc_rook_moves nsq occ in
                      if v <> hexn want then
                        fail_spec "%s_moves(%s, occ=%s|noise) = %s, sliding gives %s" (if which = 0 then "bishop" else "rook") (sq_name sq) (hex_of_int64 sub) v (hexn want);
                      bump "evaluations"
                    | [] -> raise (Mismatch ("crash", "magicsub: too few values")));
                note_distinct (Printf.sprintf "%d:%d" sq which)
              | _ -> raise (Mismatch ("crash", "magicsub line"))) [ 0; 1 ];
          (* random occupancies incl. queen *)
          for _ = 1 to (if !tier = "quick" then 200 else 20000) do
            let occ = Int64.logand (next64 r) (if chance r 1 2 then next64 r else -1L) in
            match toks (send s.d (Printf.sprintf "magic %d %s" sq (hex_of_int64 occ))) with
            | [ "g"; b; rk; q ] ->
              let o = n_of_int64 occ in
              let wb = calc_bishop_moves nsq o and wr = calc_rook_moves nsq o in
              if b <> hexn wb || rk <> hexn wr then fail_spec "slider lookup at %s occ %s" (sq_name sq) (hex_of_int64 occ);
              if q <> hexn (bb_or wb wr) then fail_spec "queen_moves is not the union at %s occ %s" (sq_name sq) (hex_of_int64 occ);
              bump ~by:3 "evaluations"
            | _ -> raise (Mismatch ("crash", "magic line"))
          done
        end
      done;
      add_sample "rook_moves(d4, every subset of d-file+4th rank | random off-ray noise) vs walking the four rays")

let core_features_differ _ = ()

let run_c15 (s : sess) (r : rng) (corpus : (bool * string) list) =
  run_case s (fun () ->
      reset_log s.d;
      match toks (send s.d "zob") with
      | "z" :: vals ->
        let a = Array.of_list vals in
        if Array.length a <> 1 + 4 + 64 + 768 then raise (Mismatch ("crash", "zob length"));
        (* ep key depends on the file only *)
        for q = 0 to 63 do if a.(5 + q) <> a.(5 + q mod 8) then fail_spec "ep_key differs between %s and %s" (sq_name q) (sq_name (q mod 8)) done;
        let keys = Array.to_list (Array.sub a 0 5) @ Array.to_list (Array.sub a 5 8) @ Array.to_list (Array.sub a 69 768) in
        List.iter (fun k -> if k = "0" then fail_spec "a Zobrist key is zero") keys;
        let sorted = List.sort compare keys in
        let rec dup = function x :: (y :: _ as rest) -> if x = y then fail_spec "Zobrist key %s occurs twice" x else dup rest | _ -> () in
        dup sorted;
        bump ~by:781 "evaluations"; bump ~by:781 "distinct_nontrivial";
        add_sample ("turn_key=" ^ a.(0))
      | _ -> raise (Mismatch ("crash", "zob line")));
  (* positions differing in exactly one or two features; and the collision search over a walk *)
  let n = (if !budget > 0 then !budget else if !tier = "quick" then 400 else 20000) / !nshards in
  let pl = { none with p_state = true; depth = 30; undo_pct = 5; null_pct = 2 } in
  List.iter (fun (d, p, tag) ->
      run_case s (fun () ->
          prefer_reuse := (tag = "castling_family");
          start s d p; bump ("source_" ^ tag);
          prefer_reuse := false;
          (* one-feature variations of the start position: side to move, clocks *)
          let f = fen_string d p in
          let h0 = (get_state s).chash in
          let flip = { p with s_turn = opp_side p.s_turn; s_ep = None } in
          let with_clocks = { p with s_half = n_of_int (int_of_n p.s_half mod 1000000 + 3); s_full = n_of_int (int_of_n p.s_full mod 1000000 + 5) } in
          op_setfen s d (fen_string d with_clocks);
          let h1 = (get_state s).chash in
          if h1 <> h0 then fail_spec "hash depends on the clocks: %s vs %s" f (fen_string d with_clocks);
          if p.s_ep = None && legal_consistent d flip then begin
            op_setfen s d (fen_string d flip);
            if (get_state s).chash = h0 then fail_spec "hash ignores the side to move: %s" f
          end;
          (* the same position written without the two counters (EPD style, 4 fields) and with one counter (5 fields): the
             library accepts these records; clocks never influence the hash, so it must be h0 — and the model's *)
          List.iter (fun nf ->
              let short = String.concat " " (List.filteri (fun i _ -> i < nf) (String.split_on_char ' ' f)) in
              s.ops <- s.ops + 1;
              expect_ok s (send s.d (Printf.sprintf "setfen %d %s" (if d then 1 else 0) short));
              let c = get_state s in
              if c.chash <> h0 then fail_spec "the hash of %S (%d fields) is %s, the hash of %S is %s" short nf (hex_of_n c.chash) f (hex_of_n h0);
              if c.chash <> c.ccalc then fail_spec "hash() <> calculate_hash() after set_fen(%S)" short;
              let mp = set_fen_on s.keys (cur s).mp (str_of_string short) d in
              if mp.hash <> c.chash then fail_model "set_fen(%S): hash differs from the model's" short;
              bump "short_fens") [ 4; 5 ];
          prefer_reuse := (tag = "castling_family");
          start s d p;
          prefer_reuse := false;
          root_children s r pl;
          walk s r pl)) (List.map (fun (d, p) -> (d, p, "castling_family")) (castling_family r ((if !tier = "quick" then 480 else 6000) / !nshards)) @ start_positions r corpus n)

(* ---------- position-level properties ---------- *)
let run_positions (s : sess) (r : rng) (corpus : (bool * string) list) (pl : plan) (quick_n : int) (thorough_n : int)
    ?(extra : (bool * spos * string) list = []) () =
  let n = (if !budget > 0 then !budget else if !tier = "quick" then quick_n else thorough_n) / !nshards in
  let starts = extra @ start_positions r corpus n in
  (* one start in eight gets a half-move clock at the boundary of an 8-, 16- or 32-bit counter (clocks are not part of
     legal-consistency): a clock stored too narrowly anywhere — history record, FEN field, undo — shows within a few plies *)
  let starts = List.map (fun (d, p, tag) ->
      if p.s_ep = None && chance r 1 8 then
        (d, { p with s_half = n_of_dec [| "254"; "255"; "256"; "65534"; "65535"; "65536"; "4294967294"; "4294967295"; "9223372036854775806";
                                          "9223372036854775807"; "9223372036854775808"; "18446744073709549000" |].(rand r 12);
                     s_full = (if chance r 1 3 then n_of_dec [| "0"; "255"; "65535"; "4294967295"; "9223372036854775807"; "9223372036854775808";
                                                               "9999999999999999999"; "10000000000000000000"; "18446744073709549000" |].(rand r 9) else p.s_full) }, tag)
      else (d, p, tag)) starts in
  List.iter (fun (d, p, tag) ->
      run_case s (fun () ->
          prefer_reuse := (tag = "castling_family");     (* consecutive castling set-ups with different rook files and partial rights on ONE object *)
          start s d p;
          prefer_reuse := false;
          bump ("source_" ^ tag);
          if List.length !samples < 4 then add_sample (Printf.sprintf "new %d %s ; walk depth %d" (if d then 1 else 0) (fen_string d p) pl.depth);
          root_children s r pl;
          walk s r pl)) starts

let tagged tag l = List.map (fun (d, p) -> (d, p, tag)) l

(* ---------- positions whose hash is a chosen 64-bit value (0, all ones): linear algebra over GF(2) on the key table.
   Sentinel values of the hash ("0 means no hash stored") are then ordinary start positions of walks. ---------- *)
let int64_of_n (x : n) : int64 = Int64.of_string ("0x" ^ hex_of_n x)
let hash_target_position (keys : zkeys) (r : rng) (target : int64) : spos option =
  let result = ref None in
  let tries = ref 0 in
  while !result = None && !tries < 400 do
    incr tries;
    let a = empty_board () in
    let wk = rand r 64 in
    let bk = rand r 64 in
    if wk <> bk && not (king_adjacent wk bk) then begin
      a.(wk) <- Some (White, King); a.(bk) <- Some (Black, King);
      let turn = if chance r 1 2 then White else Black in
      let h0 = Int64.logxor (int64_of_n (piece_key keys King White (n_of_int wk))) (int64_of_n (piece_key keys King Black (n_of_int bk))) in
      let h0 = if turn = Black then Int64.logxor h0 (int64_of_n (turn_key keys)) else h0 in
      let want = Int64.logxor target h0 in
      (* one optional man per free square: mostly pawns and knights (few attacks), some sliders *)
      let vars = List.filter_map (fun q ->
          if q = wk || q = bk then None else begin
            let s_ = if chance r 1 2 then White else Black in
            let pc = if q >= 8 && q < 56 then [| Pawn; Pawn; Pawn; Knight; Knight; Bishop; Rook; Queen |].(rand r 8) else [| Knight; Knight; Bishop; Rook |].(rand r 4) in
            Some (q, s_, pc, int64_of_n (piece_key keys pc s_ (n_of_int q)))
          end) (List.init 64 (fun i -> i)) in
      (* Gaussian elimination: basis.(b) = (vector with leading bit b, set of variable indices that produce it) *)
      let basis = Array.make 64 None in
      let varr = Array.of_list vars in
      Array.iteri (fun i (_, _, _, key) ->
          let v = ref key and used = ref [ i ] in
          let b = ref 63 in
          while !b >= 0 do
            if Int64.logand !v (Int64.shift_left 1L !b) <> 0L then begin
              match basis.(!b) with
              | None -> basis.(!b) <- Some (!v, !used); b := -1
              | Some (bv, bu) -> v := Int64.logxor !v bv; used := List.filter (fun x -> not (List.mem x bu)) !used @ List.filter (fun x -> not (List.mem x !used)) bu; decr b
            end else decr b
          done) varr;
      let v = ref want and used = ref [] and ok = ref true in
      for b = 63 downto 0 do
        if !ok && Int64.logand !v (Int64.shift_left 1L b) <> 0L then
          match basis.(b) with
          | None -> ok := false
          | Some (bv, bu) -> v := Int64.logxor !v bv; used := List.filter (fun x -> not (List.mem x bu)) !used @ List.filter (fun x -> not (List.mem x !used)) bu
      done;
      if !ok then begin
        List.iter (fun i -> let (q, s_, pc, _) = varr.(i) in a.(q) <- Some (s_, pc)) !used;
        let p = spos_of_array a turn ~half:(rand r 40) ~full:(1 + rand r 60) () in
        if lc true p then result := Some p
      end
    end
  done;
  !result

let hash_sentinel_starts (s : sess) (r : rng) : (bool * spos * string) list =
  List.filter_map (fun t -> match hash_target_position s.keys r t with
      | Some p -> Some (true, p, "hash_sentinel") | None -> bump "hash_sentinel_not_found"; None)
    (if !shard mod 2 = 0 then [ 0L; Int64.minus_one ] else [ Int64.minus_one; 0L; 1L ])

(* ---------- scripted histories: shapes that random walks do not produce ---------- *)
let rep n l = List.concat (List.init n (fun _ -> l))
type script = { sc_name : string; sc_dfrc : bool; sc_fen : string; sc_ops : string list; sc_every : int; sc_shard0 : bool }
let knight_cycle = [ "g1f3"; "g8f6"; "f3g1"; "f6g8" ]
let startfen = "rnbqkbnr/pppppppp/8/8/8/8/PPPPPPPP/RNBQKBNR w KQkq - 0 1"
let scripts () : script list = [
  (* the same position at plies 0, 4 and 104 of one reversible stretch: the third occurrence lies more than 100 plies
     after the second *)
  { sc_name = "long_shuttle"; sc_dfrc = false; sc_fen = "4k3/8/8/8/8/8/8/4K3 w - - 0 1"; sc_every = 1; sc_shard0 = false;
    sc_ops = [ "e1d1"; "e8d8"; "d1e1"; "d8e8"; "e1d1"; "e8d8" ] @ rep 24 [ "d1c1"; "d8c8"; "c1d1"; "c8d8" ] @ [ "d1e1"; "d8e8"; "e1f1"; "e8f8" ] };
  (* perpetual check: the third occurrence with the side to move in check (not mated), both colours *)
  { sc_name = "perpetual_white"; sc_dfrc = false; sc_fen = "6k1/6p1/8/7Q/8/8/8/6K1 w - - 0 1"; sc_every = 1; sc_shard0 = false;
    sc_ops = rep 3 [ "h5e8"; "g8h7"; "e8h5"; "h7g8" ] @ [ "h5e8"; "undo"; "undo"; "undo"; "e8h5" ] };
  { sc_name = "perpetual_black"; sc_dfrc = false; sc_fen = "6k1/8/8/8/7q/8/6P1/6K1 b - - 3 9"; sc_every = 1; sc_shard0 = false;
    sc_ops = rep 3 [ "h4e1"; "g1h2"; "e1h4"; "h2g1" ] };
  (* a new position loaded into an object that carries a game in which that position occurred: the old game is gone *)
  { sc_name = "stale_history"; sc_dfrc = false; sc_fen = startfen; sc_every = 1; sc_shard0 = false;
    sc_ops = rep 2 knight_cycle @ [ "setfen:0:rnbqkbnr/pppppppp/8/8/8/8/PPPPPPPP/RNBQKBNR w KQkq - 8 5" ] @ rep 2 knight_cycle
             @ [ "setfen:1:rnbqkbnr/pppppppp/8/8/8/8/PPPPPPPP/RNBQKBNR w HAha - 12 7" ] @ knight_cycle };
  (* a king captures a rook that still holds its castling right; the position after the capture then recurs twice *)
  { sc_name = "king_takes_castling_rook"; sc_dfrc = false; sc_fen = "4k2r/6K1/8/8/8/8/8/8 w k - 0 1"; sc_every = 1; sc_shard0 = false;
    sc_ops = [ "g7h8" ] @ rep 3 [ "e8e7"; "h8g8"; "e7e8"; "g8h8" ] @ [ "undo"; "undo"; "undo"; "undo"; "undo" ] };
  { sc_name = "king_takes_castling_rook_black"; sc_dfrc = true; sc_fen = "8/8/8/8/8/8/1k6/R3K3 b A - 5 30"; sc_every = 1; sc_shard0 = false;
    sc_ops = [ "b2a1" ] @ rep 3 [ "e1e2"; "a1b1"; "e2e1"; "b1a1" ] };
  (* a threefold repetition with a half-move clock beyond 2^63 *)
  { sc_name = "threefold_huge_clock"; sc_dfrc = false; sc_fen = "rnbqkbnr/pppppppp/8/8/8/8/PPPPPPPP/RNBQKBNR w KQkq - 9223372036854775808 7"; sc_every = 1; sc_shard0 = false;
    sc_ops = rep 3 knight_cycle };
  { sc_name = "threefold_huge_clock2"; sc_dfrc = false; sc_fen = "rnbqkbnr/pppppppp/8/8/8/8/PPPPPPPP/RNBQKBNR w KQkq - 18446744073709549000 10000000000000000000"; sc_every = 1; sc_shard0 = false;
    sc_ops = rep 3 knight_cycle };
  (* a root whose full-move number is 0, both sides *)
  { sc_name = "fullmove_zero"; sc_dfrc = false; sc_fen = "r3k2r/pppppppp/8/8/8/8/PPPPPPPP/R3K2R w KQkq - 0 0"; sc_every = 1; sc_shard0 = false;
    sc_ops = [ "a2a3"; "a7a6"; "undo"; "undo"; "null"; "a7a6"; "undo"; "undo"; "e1h1"; "e8a8" ] };
  (* a full-move number of 2^64-1 (std::size_t max): Black's move wraps the C++ counter to 0 and undoing it wraps it back;
     made, compared (counter modulo 2^64, CounterWrap.v), undone and compared with the dump saved before the move — from the
     root, one ply deeper after a White move, across a null move, and walked on past the wrap *)
  { sc_name = "fullmove_wrap"; sc_dfrc = false; sc_fen = "r3k2r/pppq1ppp/2n2n2/3pp3/3PP3/2N2N2/PPPQ1PPP/R3K2R b KQkq - 4 18446744073709551615"; sc_every = 1; sc_shard0 = false;
    sc_ops = [ "a7a6"; "undo"; "e8h8"; "undo"; "d5e4"; "c3e4"; "f6e4"; "undo"; "undo"; "undo"; "null"; "a2a3"; "a7a6"; "undo"; "undo"; "undo";
               "e8a8"; "e1h1"; "c8b8"; "g1h1"; "b8a8" ] };
  { sc_name = "fullmove_wrap_white"; sc_dfrc = false; sc_fen = "r3k2r/pppq1ppp/2n2n2/3pp3/3PP3/2N2N2/PPPQ1PPP/R3K2R w KQkq - 4 18446744073709551615"; sc_every = 1; sc_shard0 = false;
    sc_ops = [ "a2a3"; "a7a6"; "undo"; "undo"; "e1h1"; "e8a8"; "undo"; "d5e4"; "undo"; "undo"; "d4e5"; "c6e5"; "f3e5" ] };
  (* the argument of makemove lives inside the position's own history while the history grows across every capacity boundary *)
  { sc_name = "move_from_own_history"; sc_dfrc = false; sc_fen = startfen; sc_every = 8; sc_shard0 = false;
    sc_ops = knight_cycle @ List.init 140 (fun i -> Printf.sprintf "makehist:%d:%s" i (List.nth knight_cycle (i mod 4))) };
  (* more than 1024 stacked operations, then unwound to the root *)
  { sc_name = "very_long_history"; sc_dfrc = false; sc_fen = startfen; sc_every = 97; sc_shard0 = true;
    sc_ops = rep 140 (knight_cycle @ [ "null"; "null" ] @ knight_cycle) };
]

let run_scripts (s : sess) (r : rng) (pl : plan) (names : string list) =
  List.iter (fun sc ->
      if List.mem sc.sc_name names && ((not sc.sc_shard0) || !shard = 0) && (sc.sc_shard0 || Hashtbl.hash sc.sc_name mod !nshards = !shard) then
        run_case s (fun () ->
            op_new s sc.sc_dfrc sc.sc_fen;
            bump ("script_" ^ sc.sc_name);
            ignore (visit s r pl);
            let saved : (string * string option * bool) list ref = ref [] in      (* state, hist (sometimes), was-null *)
            let k = ref 0 in
            let snap () = incr k; (send s.d "state", (if !k mod 16 = 0 || !k < 40 then Some (send s.d "hist") else None)) in
            let find txt = match List.filter (fun m -> string_of_str (move_text m) = txt) (spec_moves (sp_of s)) with
              | m :: _ -> m | [] -> failwith ("script " ^ sc.sc_name ^ ": " ^ txt ^ " is not legal here") in
            let pop () = match !saved with
              | (st, hi, null) :: rest ->
                ignore (op_undo s ~null); saved := rest;
                let st' = send s.d "state" in
                if st' <> st then fail_spec "after undo the position differs from the one saved before the move:\n before: %s\n after:  %s" st st';
                (match hi with Some h -> if send s.d "hist" <> h then fail_spec "after undo the history differs from the one saved before the move" | None -> ());
                bump "pops_compared"
              | [] -> () in
            List.iteri (fun i op ->
                (match String.split_on_char ':' op with
                 | [ "undo" ] -> pop ()
                 | [ "null" ] -> let st, hi = snap () in saved := (st, hi, true) :: !saved; op_null s
                 | [ "setfen"; d; fen ] -> op_setfen s (d = "1") fen; saved := []
                 | [ "makehist"; idx; txt ] ->
                   let mv = find txt in
                   let st, hi = snap () in saved := (st, hi, false) :: !saved;
                   s.ops <- s.ops + 1;
                   expect_ok s (send s.d ("makehist " ^ idx));
                   let n = cur s in
                   s.stack <- { mp = makemove s.keys n.mp mv; sg = g_move n.sg mv } :: s.stack
                 | [ txt ] -> let mv = find txt in let st, hi = snap () in saved := (st, hi, false) :: !saved; op_make s mv
                 | _ -> failwith ("bad script op " ^ op));
                if (i + 1) mod sc.sc_every = 0 then ignore (visit s r pl)) sc.sc_ops;
            ignore (visit s r pl);
            while !saved <> [] do pop () done;
            ignore (visit s r pl))) (scripts ())

let () =
  let specs = [
    ("--prop", Arg.Set_string prop, ""); ("--driver", Arg.Set_string driver_path, ""); ("--corpus", Arg.Set_string corpus_path, "");
    ("--seed", Arg.Set_int seed, ""); ("--tier", Arg.Set_string tier, ""); ("--shard", Arg.Set_int shard, "");
    ("--nshards", Arg.Set_int nshards, ""); ("--out", Arg.Set_string out_path, ""); ("--faildir", Arg.Set_string faildir, "");
    ("--replay", Arg.Set_string replay, ""); ("--budget", Arg.Set_int budget, "") ] in
  Arg.parse specs (fun _ -> ()) "checker";
  let t0 = Unix.gettimeofday () in
  let d = open_driver !driver_path in
  let keys = keys_of_driver d in
  let s = { d; keys; dfrc = false; stack = []; ops = 0 } in
  let r = mk_rng (!seed * 1000003 + !shard * 7919 + Hashtbl.hash !prop) in
  the_rng := Some r;
  let corpus = if !corpus_path <> "" then usable_corpus (read_corpus !corpus_path) else [] in
  Special.violations_hook := run_case;
  (try
     if !replay <> "" then (try Replay.run s !replay !prop with Mismatch (k, dt) -> (Printf.printf "DISAGREEMENT kind=%s : %s\n" k dt; violations := (k, dt, !replay) :: !violations))
     else
       match !prop with
       | "C16" -> run_c16 s r
       | "C17" -> run_c17 s r
       | "C14" -> run_c14 s r
       | "C15" -> run_c15 s r corpus
       | "C01" ->
         let fam = tagged "castling_family" (castling_family r (600 / !nshards)) @ tagged "ep_family" (ep_family r (1200 / !nshards))
                   @ tagged "pin_family" (pin_family r (600 / !nshards)) @ tagged "promo_family" (promo_family r (300 / !nshards))
                   @ tagged "no_move_family" (no_move_family r (160 / !nshards)) @ tagged "discovery_family" (discovery_family r (200 / !nshards))
                   @ tagged "material_family" (material_family r (48 / !nshards)) in
         (* equal hash, different castling rook: all move-list queries on the one and immediately on the other, on one object *)
         List.iter (fun (pa, pb) ->
             run_case s (fun () ->
                 bump "source_rook_identity_pair";
                 let pl = { none with p_moves = true; p_into = true; p_islegal = true } in
                 op_new s true (fen_string true pa); ignore (visit s r pl);
                 op_setfen s true (fen_string true pb); ignore (visit s r pl);
                 op_setfen s true (fen_string true pa); ignore (visit s r pl))) (rook_identity_pairs r (max 1 ((if !tier = "quick" then 64 else 1200) / !nshards)));
         run_positions s r corpus { none with p_moves = true; p_into = true; p_islegal = true; depth = 10; undo_pct = 5; null_pct = 2 } 3000 60000 ~extra:fam ()
       | "C02" ->
         run_scripts s r { none with p_state = true } [ "fullmove_zero"; "fullmove_wrap"; "fullmove_wrap_white" ];
         run_positions s r corpus { none with p_state = true; p_maketext = true; depth = 40; undo_pct = 4; null_pct = 4 } 3000 100000
                    ~extra:(tagged "castling_family" (castling_family r (400 / !nshards)) @ tagged "promo_family" (promo_family r (300 / !nshards))) ()
       | "C03" ->
         run_scripts s r { none with p_state = true; p_fen = true } [ "fullmove_wrap"; "fullmove_wrap_white" ];
         run_scripts s r { none with p_state = true; p_hist = true } [ "very_long_history"; "fullmove_zero"; "fullmove_wrap"; "fullmove_wrap_white"; "move_from_own_history"; "king_takes_castling_rook"; "king_takes_castling_rook_black" ];
         run_positions s r corpus { none with p_state = true; p_hist = true; p_moves = true; depth = 120; undo_pct = 30; null_pct = 6 } 800 20000
           ~extra:(hash_sentinel_starts s r) ()
       | "C05" ->
         run_scripts s r { none with p_state = true } [ "king_takes_castling_rook"; "king_takes_castling_rook_black"; "fullmove_zero" ];
         run_positions s r corpus { none with p_state = true; depth = 60; undo_pct = 15; null_pct = 5 } 3000 100000
           ~extra:(hash_sentinel_starts s r @ tagged "castling_family" (castling_family r (600 / !nshards)) @ tagged "promo_family" (promo_family r (200 / !nshards))) ()
       | "C08" -> run_positions s r corpus { none with p_attacks = true; p_attackers = true; depth = 12; undo_pct = 5; null_pct = 3 } 2500 50000
                    ~extra:(tagged "pin_family" (pin_family r (400 / !nshards)) @ tagged "discovery_family" (discovery_family r (300 / !nshards))
                            @ tagged "ep_family" (ep_family r (200 / !nshards)) @ tagged "castling_family" (castling_family r (160 / !nshards))) ()
       | "C13" -> run_positions s r corpus { none with p_attacks = true; depth = 12; undo_pct = 5; null_pct = 5 } 3000 70000
                    ~extra:(tagged "pin_family" (pin_family r (2000 / !nshards))) ()
       | "C18" ->
         let sk = List.filter_map (fun _ -> match pawn_skeleton r with Some p -> Some (true, p, "pawn_skeleton") | None -> None) (List.init (20000 / !nshards) (fun i -> i)) in
         run_positions s r corpus { none with p_attacks = true; depth = 0 } 100 1000 ~extra:sk ();
         run_positions s r corpus { none with p_attacks = true; depth = 12 } 2000 100000 ()
       | "C10" ->
         run_scripts s r { none with p_game = true; p_state = true } [ "long_shuttle"; "perpetual_white"; "perpetual_black"; "stale_history"; "king_takes_castling_rook"; "king_takes_castling_rook_black"; "threefold_huge_clock"; "threefold_huge_clock2" ];
         run_positions s r corpus { none with p_game = true; depth = 40; undo_pct = 8; null_pct = 3 } 2500 40000
           ~extra:(tagged "no_move_family" (no_move_family r (240 / !nshards)) @ tagged "ep_family" (ep_family r (300 / !nshards))
                   @ tagged "pin_family" (pin_family r (200 / !nshards))) ()
       | "C11" ->
         (* equal hash, different castling rook: every text of either twin parsed on the one and immediately on the other *)
         List.iter (fun (pa, pb) ->
             run_case s (fun () ->
                 bump "source_rook_identity_pair";
                 let fa = fen_string true pa and fb = fen_string true pb in
                 let texts p = List.map (fun mv -> string_of_str (move_text mv)) (spec_moves p) in
                 let all = List.sort_uniq compare (texts pa @ texts pb @ [ "e1g1"; "e1c1"; "e8g8"; "e8c8" ]) in
                 let ask f p =
                   op_setfen s true f;
                   List.iter (fun str ->
                       let want = parse_move (cur s).mp (str_of_string str) in
                       (match toks (send s.d ("parse " ^ hexstr str)), want with
                        | [ "p"; "throw" ], None -> if List.mem str (texts p) then fail_spec "parse_move rejects %S on %S" str f
                        | [ "p"; c ], Some wm when c <> "throw" && int_of_string c = code_of_move wm ->
                          if not (List.exists (fun x -> code_of_move x = int_of_string c) (spec_moves p)) then fail_spec "parse_move(%S) on %S returns a move that is not legal there" str f
                        | _ -> fail_model "parse_move(%S) on %S differs from the model's" str f);
                       bump "parse_twin_queries") all in
                 op_new s true fa;
                 ask fa pa; ask fb pb; ask fa pa)) (rook_identity_pairs r (max 1 ((if !tier = "quick" then 64 else 1200) / !nshards)));
         run_positions s r corpus { none with p_text = true; p_parseall = 15; depth = 12 } 2500 16000
                    ~extra:(tagged "castling_family" (castling_family r (300 / !nshards))) ()
       | "C12" ->
         (* equal hash, different castling rook: queried back to back on one object and in one process (a cache keyed by the
            hash, or rook squares left over from the previous position, would answer for the wrong position) *)
         List.iter (fun (pa, pb) ->
             run_case s (fun () ->
                 bump "source_rook_identity_pair";
                 let pl = { none with p_text = true; p_predict = true; p_predict_cpp = true } in
                 op_new s true (fen_string true pa); ignore (visit s r pl);
                 op_setfen s true (fen_string true pb); ignore (visit s r pl);
                 op_setfen s true (fen_string true pa); ignore (visit s r pl);
                 (* the SAME move asked on the one position and immediately afterwards on its equal-hash twin *)
                 let fa = fen_string true pa and fb = fen_string true pb in
                 let codes p = List.map code_of_move (spec_moves p) in
                 let cb = codes pb in
                 List.iter (fun c ->
                     if List.mem c cb then begin
                       let ask f =
                         op_setfen s true f;
                         let want = predict_hash s.keys (cur s).mp (move_of_code c) in
                         (match toks (send s.d (Printf.sprintf "predict1 %d" c)) with
                          | [ "P"; h ] ->
                            ignore (send s.d (Printf.sprintf "make %d" c));
                            let after = get_state s in
                            ignore (send s.d "undo");
                            if h <> hex_of_n after.chash then fail_spec "predict_hash(%s) = %s on %S, hash() after makemove = %s" (show_move (move_of_code c)) h f (hex_of_n after.chash);
                            if h <> hex_of_n want then fail_model "predict_hash(%s) on %S differs from the model's" (show_move (move_of_code c)) f
                          | _ -> raise (Mismatch ("crash", "predict1 line")));
                         bump "predict_twin_queries" in
                       ask fa; ask fb
                     end) (codes pa);
                 root_children s r pl)) (rook_identity_pairs r (max 1 ((if !tier = "quick" then 64 else 1200) / !nshards)));
         run_positions s r corpus { none with p_text = true; p_predict = true; p_predict_cpp = true; depth = 14 } 2500 100000
                    ~extra:(tagged "castling_family" (castling_family r (600 / !nshards)) @ tagged "promo_family" (promo_family r (300 / !nshards))) ()
       | "C07" -> run_positions s r corpus { none with p_rt = true; p_fen = true; p_state = true; depth = 20 } 2500 100000
                    ~extra:(tagged "long_placement" (List.filter_map (fun _ -> match long_placement r with Some p -> Some (true, p) | None -> None) (List.init 60 (fun i -> i)))) ()
       | "C04" ->
         (* the count must not depend on what was computed before: positions with equal placement (and equal hash) but a
            different castling rook, evaluated back to back in one process *)
         List.iter (fun (pa, pb) ->
             run_case s (fun () ->
                 bump "source_rook_identity_pair";
                 List.iter (fun p ->
                     start s true p;
                     ignore (visit s r { none with p_perft = 3 })) [ pa; pb; pa ])) (rook_identity_pairs r (max 1 ((if !tier = "quick" then 48 else 800) / !nshards)));
         (* perft(2) against the rules at every node of short walks; thorough adds perft(3) at the roots of a smaller sample
            (the specification's mailbox perft(3) costs ~0.3 s per position) *)
         run_positions s r corpus { none with p_perft = 2; depth = 3; undo_pct = 0; null_pct = 0 } 400 6000
                    ~extra:(tagged "castling_family" (castling_family r (100 / !nshards)) @ tagged "ep_family" (ep_family r (900 / !nshards))) ();
         if !tier <> "quick" then
           run_positions s r corpus { none with p_perft = 3; depth = 0; undo_pct = 0; null_pct = 0 } 0 1200
                    ~extra:(tagged "castling_family" (castling_family r (160 / !nshards)) @ tagged "promo_family" (promo_family r (160 / !nshards))) ()
       | "C20" ->
         run_scripts s r { none with p_state = true; p_moves = true; p_game = true; p_hist = true }
           [ "move_from_own_history"; "very_long_history"; "long_shuttle"; "perpetual_white"; "stale_history"; "fullmove_zero" ];
         run_positions s r corpus { none with p_state = true; p_moves = true; p_attacks = true; p_game = true; p_text = true; p_fen = true; p_hist = true;
                                                       depth = 40; undo_pct = 12; null_pct = 4 } 1500 12000
                    ~extra:(tagged "castling_family" (castling_family r (300 / !nshards)) @ tagged "ep_family" (ep_family r (600 / !nshards))
                            @ tagged "promo_family" (promo_family r (200 / !nshards)) @ tagged "material_family" (material_family r (64 / !nshards))
                            @ tagged "long_placement" (List.filter_map (fun _ -> match long_placement r with Some p -> Some (true, p) | None -> None) (List.init 40 (fun i -> i)))
                            @ tagged "discovery_family" (discovery_family r (100 / !nshards)) @ tagged "no_move_family" (no_move_family r (60 / !nshards))) ()
       | "C09" ->
         run_scripts s r { none with p_game = true; p_state = true } [ "long_shuttle"; "perpetual_white"; "perpetual_black"; "stale_history"; "king_takes_castling_rook"; "king_takes_castling_rook_black"; "threefold_huge_clock"; "threefold_huge_clock2" ];
         Special.run s r corpus "C09" !tier !nshards !budget
       | p -> Special.run s r corpus p !tier !nshards !budget
   with Exit -> ());
  (try ignore (send d "quit") with _ -> ());
  let wall = Unix.gettimeofday () -. t0 in
  if !out_path <> "" then begin
    let oc = open_out !out_path in
    let cs = Hashtbl.fold (fun k v acc -> Printf.sprintf "\"%s\": %d" (json_escape k) v :: acc) counters [] in
    Printf.fprintf oc "{\"counters\": {%s},\n \"samples\": [%s],\n \"violations\": [%s],\n \"wall_s\": %.2f}\n"
      (String.concat ", " (List.sort compare cs))
      (String.concat ", " (List.map (fun x -> "\"" ^ json_escape x ^ "\"") (List.rev !samples)))
      (String.concat ", " (List.map (fun (k, dt, p) -> Printf.sprintf "{\"kind\": \"%s\", \"details\": \"%s\", \"replay\": \"%s\"}" k (json_escape dt) (json_escape p)) (List.rev !violations)))
      wall;
    close_out oc
  end;
  List.iter (fun (k, dt, p) -> Printf.printf "MISMATCH kind=%s replay=%s : %s\n" k p dt) (List.rev !violations);
  exit (if !violations = [] then 0 else 1)
