#!/usr/bin/env python3
"""mk_manifest.py — writes MANIFEST.json from checks.json (one source of truth for levels, notes, rules)."""
import json, os
ROOT = os.path.dirname(os.path.dirname(os.path.abspath(__file__)))
C = json.load(open(os.path.join(ROOT, "checks.json")))
checks, na = [], []
for pid in sorted(C):
    c = C[pid]
    if not c.get("claimed"):
        na.append({"property_id": pid, "reason": c.get("na_reason", "not yet covered by the Coq development")})
        continue
    checks.append({
        "property_id": pid,
        "quick_cmd": "./check %s --tier quick" % pid,
        "thorough_cmd": "./check %s --tier thorough" % pid,
        "evidence_file": "evidence/%s.json" % pid,
        "replay_cmd_template": "./check %s --replay {path}" % pid,
        "engine": "coq-proof+correspondence",
        "level_claimed": {"category": "proof", "text": c["level_text"], "design_ref": c.get("design_ref", "DESIGN.md §6 " + pid)},
        "level_note": c["level_note"],
        "technique": c["technique"],
    })
M = {
    "version": 1,
    "setup_cmd": "./check --setup",
    "hooks": {
        "guard": "KZ04PX_LIBCHESS_VERIF",
        "enable": "the checks compile /repo/src/*.cpp together with tools/driver.cpp with -DKZ04PX_LIBCHESS_VERIF; no hook code was needed (every observable is public API), so the define guards nothing in /repo",
        "baseline_off_cmd": "rm -rf /var/tmp/lcv.baseline && cmake -G Ninja -S /repo -B /var/tmp/lcv.baseline -DCMAKE_BUILD_TYPE=RelWithDebInfo >/dev/null && cmake --build /var/tmp/lcv.baseline --target libchess_test && /var/tmp/lcv.baseline/libchess_test; rc=$?; rm -rf /var/tmp/lcv.baseline; exit $rc",
        "source_commits": [],
        "add_only": True,
    },
    "engines": [
        {"name": "coq-proof+correspondence", "path": "check", "serves_properties": [c["property_id"] for c in checks],
         "kind_free_text": "Coq 8.16 theorems about a Gallina model of the C++ (coq/), model data regenerated from the source on every run (tools/gen.py -> coq/Gen), model algorithms tied to the code by an extracted-OCaml correspondence checker (tools/*.ml) driving the library built from /repo's working tree (tools/driver.cpp)"}],
    "checks": checks,
    "not_applicable": na,
    "notes": "See DESIGN.md. Repairs of genuine defects D1-D3 are 'fix:' commits in /repo, recorded in known_findings.txt.",
}
json.dump(M, open(os.path.join(ROOT, "MANIFEST.json"), "w"), indent=1)
print("MANIFEST.json: %d checks, %d not_applicable" % (len(checks), len(na)))
