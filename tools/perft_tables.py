"""perft_tables.py — C04: the published perft tables in /repo/examples/suite*.cpp, run through the C++ perft().
The expectations are re-read from the current tree (and compared with the pinned copy under corpus/ to
notice drift of the tables themselves)."""
import re, os, subprocess, json, time
from concurrent.futures import ThreadPoolExecutor

def parse_suite(path):
    """returns [(fen, [n1..nk])] from lines like {"fen", {n1, n2, ...}} """
    try: s = open(path).read()
    except OSError: return []
    out = []
    for m in re.finditer(r'\{\s*"([^"]+)"\s*,\s*\{([0-9,\s]+)\}\s*\}', s):
        nums = [int(x) for x in m.group(2).replace(" ", "").split(",") if x.strip()]
        out.append((m.group(1), nums))
    return out

def run_one(driver, dfrc, fen, depths):
    p = subprocess.Popen([driver], stdin=subprocess.PIPE, stdout=subprocess.PIPE, text=True)
    cmds = ["new %d %s" % (dfrc, fen), "state", "hist"] + ["perft %d" % d for d in depths] + ["state", "hist", "quit"]
    out, _ = p.communicate("\n".join(cmds) + "\n")
    return out.strip().split("\n")

def run(repo, driver, tier, faildir, nproc, corpus_dir):
    std = parse_suite(os.path.join(repo, "examples", "suite.cpp"))
    frc = parse_suite(os.path.join(repo, "examples", "suite960.cpp"))
    viol, evals, nodes, distinct = [], 0, 0, 0
    pinned = os.path.join(corpus_dir, "perft_tables.json")
    drift = None
    if os.path.exists(pinned):
        pj = json.load(open(pinned))
        drift = (pj.get("std") != [[f, n] for f, n in std]) or (pj.get("frc") != [[f, n] for f, n in frc])
        if drift:   # the tables in the tree were edited: judge against the pinned copy
            std = [(f, n) for f, n in pj["std"]]; frc = [(f, n) for f, n in pj["frc"]]
    # depth budget: standard to depth 6 needs ~4.8e9 nodes; quick caps the nodes per position
    cap = 3_000_000 if tier == "quick" else 400_000_000
    jobs = []
    for dfrc, table in ((0, std), (1, frc)):
        for fen, nums in table:
            depths = [d + 1 for d, n in enumerate(nums) if n <= cap]
            if depths: jobs.append((dfrc, fen, nums, depths))
    if tier == "quick": jobs = jobs[::3]
    def work(j):
        dfrc, fen, nums, depths = j
        return j, run_one(driver, dfrc, fen, depths)
    with ThreadPoolExecutor(max_workers=nproc) as ex:
        for (dfrc, fen, nums, depths), lines in ex.map(work, jobs):
            bad = None
            if len(lines) < len(depths) + 5:
                bad = "driver died"
            else:
                before, after = lines[1:3], lines[3 + len(depths):5 + len(depths)]
                for d, l in zip(depths, lines[3:3 + len(depths)]):
                    got = int(l.split()[1]); evals += 1; nodes += got
                    if got != nums[d - 1]: bad = "perft(%d) = %d, published table says %d" % (d, got, nums[d - 1]); break
                if not bad and before != after: bad = "perft changed the position or its history"
            distinct += 1
            if bad:
                rp = os.path.join(faildir, "C04_table_%d.replay" % len(viol))
                open(rp, "w").write("# property=C04 kind=spec\n# %s\nnew %d %s\n" % (bad, dfrc, fen) + "".join("perft %d\n" % d for d in depths))
                viol.append({"kind": "spec", "details": "%s  [%s]" % (bad, fen), "replay": rp})
    # ---- wide-tree probes: totals beyond 2^31 (quick) and 2^32 (thorough) — a count type that is too narrow, or any
    # other fault that only shows on huge totals, breaks "perft(d) = sum over the legal moves m of perft(d-1) after m"
    # (theorem C04_recurrence for the model; the terms are each far below 2^31).  One call is compared with the split.
    probes = [(0, "r2qk2r/1pp1qpp1/2npbn2/2b1p3/8/8/QQQQQQQQ/Q3K3 w kq - 0 1", 5),
              # thin trees, great depth (both kings confined to their back ranks by rammed pawns): recursion depths beyond any
              # fixed-size per-depth scratch storage
              (0, "3k4/1p1p1p1p/1P1P1P1P/8/8/p1p1p1p1/P1P1P1P1/3K4 w - - 0 1", 18),
              (0, "3k4/1p1p1p1p/1P1P1P1P/8/8/p1p1p1p1/P1P1P1P1/3K4 b - - 0 1", 21),
              (0, "3k4/1p1p1p1p/1P1P1P1P/8/8/p1p1p1p1/P1P1P1P1/3K4 w - - 0 1", 27)]
    if tier != "quick":
        probes.append((0, "r3k2r/p1ppqpb1/bn2pnp1/3PN3/1p2P3/2N2Q1p/PPPBBPPP/R3K2R w KQkq - 0 1", 6))   # 8 031 647 685 > 2^32
    probe_nodes = 0
    for dfrc, fen, depth in probes:
        p = subprocess.Popen([driver], stdin=subprocess.PIPE, stdout=subprocess.PIPE, text=True)
        out, _ = p.communicate("new %d %s\nmoves\nquit\n" % (dfrc, fen))
        ls = out.strip().split("\n")
        toks = ls[1].split() if len(ls) > 1 and ls[1].startswith("M ") else []
        roots = toks[2:2 + int(toks[1])] if len(toks) > 1 else []      # "M <n> <n encoded moves> ; captures ; ..."
        def whole():
            l = run_one(driver, dfrc, fen, [depth]); return int(l[3].split()[1]) if len(l) > 3 else -1
        def part(enc):
            q = subprocess.Popen([driver], stdin=subprocess.PIPE, stdout=subprocess.PIPE, text=True)
            o, _ = q.communicate("new %d %s\nmake %s\nperft %d\nquit\n" % (dfrc, fen, enc, depth - 1))
            l = o.strip().split("\n"); return int(l[2].split()[1]) if len(l) > 2 else -1
        with ThreadPoolExecutor(max_workers=nproc) as ex:
            fw = ex.submit(whole); parts = list(ex.map(part, roots)); total = fw.result()
        evals += 1 + len(parts); distinct += 1; probe_nodes += max(total, 0)
        bad = None
        if not roots or total < 0 or min(parts) < 0: bad = "driver died on the wide-tree probe"
        elif total != sum(parts): bad = "perft(%d) = %d but the sum of perft(%d) over the %d legal moves is %d" % (depth, total, depth - 1, len(parts), sum(parts))
        if bad:
            rp = os.path.join(faildir, "C04_wide_%d.replay" % len(viol))
            open(rp, "w").write("# property=C04 kind=spec\n# %s\nnew %d %s\nperft %d\n" % (bad, dfrc, fen, depth) + "".join("new %d %s\nmake %s\nperft %d\n" % (dfrc, fen, e, depth - 1) for e in roots))
            viol.append({"kind": "spec", "details": "%s  [%s]" % (bad, fen), "replay": rp})
    return {"evaluations": evals, "distinct_nontrivial": distinct, "perft_table_nodes": nodes, "tables_drifted_from_pinned_copy": bool(drift),
            "table_positions": len(jobs), "wide_tree_probe_nodes": probe_nodes}, viol
