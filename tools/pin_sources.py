#!/usr/bin/env python3
"""pin_sources.py — records the sha256 of every library source file of /repo at the tree the proofs and the
correspondence were last validated against (tools/source_pins.json).  `check` compares the working tree with these
pins: a difference is NOT a verdict — it only makes the quick tier explore more (extra seeds), because a changed
source is exactly when the hand-written model may have gone stale."""
import hashlib, json, os, subprocess, sys
REPO = os.environ.get("LIBCHESS_REPO", "/repo")
def tree(repo):
    out = {}
    for top in ("src", "include"):
        for d, _, fs in os.walk(os.path.join(repo, top)):
            for f in fs:
                if f.endswith((".cpp", ".hpp", ".h")):
                    p = os.path.join(d, f)
                    out[os.path.relpath(p, repo)] = hashlib.sha256(open(p, "rb").read()).hexdigest()
    return out
if __name__ == "__main__":
    head = subprocess.run(["git", "-C", REPO, "rev-parse", "HEAD"], capture_output=True, text=True).stdout.strip()
    json.dump({"commit": head, "files": tree(REPO)}, open(os.path.join(os.path.dirname(os.path.abspath(__file__)), "source_pins.json"), "w"), indent=1, sort_keys=True)
    print("pinned", head)
