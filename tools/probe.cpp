// probe.cpp — prints the constants of the library as the current source defines them.
// It #includes movegen.cpp to see the two internal (multiplier, offset) tables; everything else
// goes through public headers.  /verif/tools/gen.py turns the output into coq/Gen/*.v.
#include <bit>
#include <cstdint>
#include <cstdio>
#include <string>
#include "movegen.cpp"
#include "libchess/position.hpp"
#include "libchess/zobrist.hpp"

using namespace libchess;

int main() {
    for (int i = 0; i < 64; ++i)
        std::printf("bishop_stuff %d %llu %d\n", i, (unsigned long long)movegen::bishop_stuff[i].first, movegen::bishop_stuff[i].second);
    for (int i = 0; i < 64; ++i)
        std::printf("rook_stuff %d %llu %d\n", i, (unsigned long long)movegen::rook_stuff[i].first, movegen::rook_stuff[i].second);
    std::printf("magic_size %zu\n", movegen::magic_moves.size());
    for (int i = 0; i < 64; ++i)
        std::printf("masks %d %llu %llu\n", i, (unsigned long long)movegen::bishop_masks[i].value(), (unsigned long long)movegen::rook_masks[i].value());
    // Move: where the constructor puts each field (one field saturated, the others zero)
    const auto z = Square(0);
    const auto P7 = static_cast<Piece>(7);
    std::printf("ctor from %u\n", std::bit_cast<std::uint32_t>(Move(MoveType::Normal, Square(63), z, Piece::Pawn, Piece::Pawn, Piece::Pawn)));
    std::printf("ctor to %u\n", std::bit_cast<std::uint32_t>(Move(MoveType::Normal, z, Square(63), Piece::Pawn, Piece::Pawn, Piece::Pawn)));
    std::printf("ctor type %u\n", std::bit_cast<std::uint32_t>(Move(MoveType::promo_capture, z, z, Piece::Pawn, Piece::Pawn, Piece::Pawn)));
    std::printf("ctor piece %u\n", std::bit_cast<std::uint32_t>(Move(MoveType::Normal, z, z, P7, Piece::Pawn, Piece::Pawn)));
    std::printf("ctor cap %u\n", std::bit_cast<std::uint32_t>(Move(MoveType::Normal, z, z, Piece::Pawn, P7, Piece::Pawn)));
    std::printf("ctor promo %u\n", std::bit_cast<std::uint32_t>(Move(MoveType::Normal, z, z, Piece::Pawn, Piece::Pawn, P7)));
    // Move: what each accessor reads from a single set bit
    for (int b = 0; b < 32; ++b) {
        const auto m = std::bit_cast<Move>(std::uint32_t(1) << b);
        std::printf("acc %d %d %d %d %d %d %d\n", b, static_cast<int>(m.from()), static_cast<int>(m.to()), static_cast<int>(m.type()),
                    static_cast<int>(m.piece()), static_cast<int>(m.captured()), static_cast<int>(m.promotion()));
    }
    for (int p = 1; p <= 4; ++p) {
        const std::string s = Move(MoveType::promo, Square(48), Square(56), Piece::Pawn, Piece::None, static_cast<Piece>(p));
        std::printf("promo_letter %d %d\n", p, (int)(unsigned char)s.back());
    }
    for (int i = 0; i < 4; ++i) std::printf("castle_king_to %d %d\n", i, static_cast<int>(castle_king_to[i]));
    for (int i = 0; i < 2; ++i) std::printf("ksc_rook_to %d %d\n", i, static_cast<int>(ksc_rook_to[i]));
    for (int i = 0; i < 2; ++i) std::printf("qsc_rook_to %d %d\n", i, static_cast<int>(qsc_rook_to[i]));
    for (int i = 0; i < 8; ++i) std::printf("file_mask %d %llu\n", i, (unsigned long long)bitboards::files[i].value());
    for (int i = 0; i < 8; ++i) std::printf("rank_mask %d %llu\n", i, (unsigned long long)bitboards::ranks[i].value());
    std::printf("east_keep %llu\n", (unsigned long long)Bitboard(~0ULL).east().value());
    std::printf("west_keep %llu\n", (unsigned long long)Bitboard(~0ULL).west().value());
    std::printf("enum_side %d %d\n", (int)Side::White, (int)Side::Black);
    std::printf("enum_piece %d %d %d %d %d %d %d\n", (int)Piece::Pawn, (int)Piece::Knight, (int)Piece::Bishop, (int)Piece::Rook, (int)Piece::Queen, (int)Piece::King, (int)Piece::None);
    std::printf("enum_mtype %d %d %d %d %d %d %d %d\n", (int)MoveType::Normal, (int)MoveType::Capture, (int)MoveType::Double, (int)MoveType::enpassant,
                (int)MoveType::ksc, (int)MoveType::qsc, (int)MoveType::promo, (int)MoveType::promo_capture);
    std::printf("offsq %d\n", static_cast<int>(squares::OffSq));
    const Position fresh;
    std::printf("default_rooks %d %d %d %d\n", static_cast<int>(fresh.get_castling_square(Side::White, MoveType::ksc)),
                static_cast<int>(fresh.get_castling_square(Side::White, MoveType::qsc)),
                static_cast<int>(fresh.get_castling_square(Side::Black, MoveType::ksc)),
                static_cast<int>(fresh.get_castling_square(Side::Black, MoveType::qsc)));
    std::printf("zk_turn %llu\n", (unsigned long long)zobrist::turn_key());
    for (int i = 0; i < 4; ++i) std::printf("zk_castling %d %llu\n", i, (unsigned long long)zobrist::castling_key(i));
    for (int i = 0; i < 64; ++i) std::printf("zk_ep %d %llu\n", i, (unsigned long long)zobrist::ep_key(Square(i)));
    for (int p = 0; p < 6; ++p)
        for (int s = 0; s < 2; ++s)
            for (int q = 0; q < 64; ++q)
                std::printf("zk_piece %d %llu\n", 128 * p + 64 * s + q,
                            (unsigned long long)zobrist::piece_key(static_cast<Piece>(p), static_cast<Side>(s), Square(q)));
    return 0;
}
