(* replay.ml — re-executes a replay script against the driver built from the current tree and
   re-validates every step with the full observation set; prints the first disagreement. *)
open Lcmodel
open Base
open Sess

let run (s : sess) (path : string) (_prop : string) =
  let ic = open_in path in
  let lines = ref [] in
  (try while true do lines := input_line ic :: !lines done with End_of_file -> close_in ic);
  let lines = List.filter (fun l -> l <> "" && l.[0] <> '#') (List.rev !lines) in
  let full () =
    if s.stack <> [] then begin
      ignore (obs_state ~want_valid:true s); ignore (obs_hist s); ignore (obs_moves s); ignore (obs_attacks s);
      obs_attackers s; ignore (obs_game s); ignore (obs_text s ~check_predict:true); ignore (obs_fen s)
    end in
  List.iter (fun l ->
      Printf.printf "> %s\n%!" l;
      match toks l with
      | "new" :: d :: _ ->
        let fen = String.concat " " (List.tl (List.tl (toks l))) in
        op_new s (d = "1") fen; full ()
      | "setfen" :: d :: _ ->
        let fen = String.concat " " (List.tl (List.tl (toks l))) in
        op_setfen s (d = "1") fen; full ()
      | [ "make"; c ] -> op_make s (move_of_code (int_of_string c)); full ()
      | [ "maketext"; h ] ->
        let n = cur s in
        let reply = send s.d l in
        Printf.printf "< %s\n" reply;
        (match makemove_str s.keys n.mp (str_of_string (unhexstr h)), parse_move n.mp (str_of_string (unhexstr h)) with
         | Some p, Some m -> s.stack <- { mp = p; sg = g_move n.sg m } :: s.stack; full ()
         | _ -> ())
      | [ "null" ] -> op_null s; full ()
      | [ "undo" ] -> ignore (op_undo s ~null:false); full ()
      | [ "undonull" ] -> ignore (op_undo s ~null:true); full ()
      | _ ->
        (* observation or raw command: show what the library answers now *)
        let reply = send s.d l in
        Printf.printf "< %s\n" (if String.length reply > 400 then String.sub reply 0 400 ^ "..." else reply)) lines;
  Printf.printf "replay finished without disagreement\n"
