#!/bin/bash
# run_harmless.sh <name> <prop> [<prop>...] — applies harmless/<name>/patch.diff (a behaviour-preserving change written by an
# independent sub-agent) in a scratch worktree of /repo and runs the given properties' quick checks against it from an
# isolated copy of /verif.  Expected: exit 0, no VIOLATION line.  Result in harmless/<name>/result_<prop>.txt.
n=$1; shift
V=/var/tmp/lcv.hcopy
rm -rf $V; mkdir -p $V; rsync -a --exclude '.work/failures' --exclude '.git' /verif/ $V/
wt=/var/tmp/lcv.wt.h.$n
rm -rf $wt; git -C /repo worktree add -q --detach $wt HEAD || exit 2
git -C $wt apply /verif/harmless/$n/patch.diff || { echo "patch failed"; git -C /repo worktree remove --force $wt; exit 2; }
for pid in "$@"; do
  ( cd $V && LIBCHESS_REPO=$wt timeout 2400 ./check $pid --tier quick > /verif/harmless/$n/result_$pid.txt 2>&1; echo "exit=$?" >> /verif/harmless/$n/result_$pid.txt )
  echo "$n $pid: $(grep -c '^VIOLATION' /verif/harmless/$n/result_$pid.txt) violation line(s), $(tail -1 /verif/harmless/$n/result_$pid.txt)"
done
git -C /repo worktree remove --force $wt
rm -rf $V
