#!/bin/bash
# run_seeded.sh [pattern] — runs the registered quick check of each seeded change's property against a scratch
# worktree of /repo carrying that change, from an isolated copy of /verif; records the verdict in seeded/<id>/result.txt.
pat=${1:-C}
V=/var/tmp/lcv.vcopy
rm -rf $V; mkdir -p $V; rsync -a --exclude '.work/failures' --exclude '.git' /verif/ $V/
for d in /verif/seeded/${pat}*; do
  n=$(basename $d); pid=${n%%_*}
  wt=/var/tmp/lcv.wt.$n
  rm -rf $wt; git -C /repo worktree add -q --detach $wt HEAD || continue
  git -C $wt apply $d/patch.diff || { echo "patch failed" > $d/result.txt; git -C /repo worktree remove --force $wt; continue; }
  ( cd $V && LIBCHESS_REPO=$wt timeout 1500 ./check $pid --tier quick > $d/result.txt 2>&1; echo "exit=$?" >> $d/result.txt )
  git -C /repo worktree remove --force $wt
  echo "$n: $(grep -c '^VIOLATION' $d/result.txt) violation line(s), $(tail -1 $d/result.txt)"
done
rm -rf $V
