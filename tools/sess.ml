(* sess.ml — a session drives three things in lock-step: the C++ library (through the driver),
   the extracted model M, and the extracted spec S; and compares every observation.
   A disagreement with S is a property violation ("spec"); a disagreement with M only is a broken
   correspondence ("model"). *)
open Lcmodel
open Base

type node = { mp : position; sg : sgame }
type sess = {
  d : drv;
  keys : zkeys;
  mutable dfrc : bool;
  mutable stack : node list;          (* head = current *)
  mutable ops : int;
}

let cur s = List.hd s.stack
let sp_of s = (cur s).sg.g_cur

let keys_of_driver (d : drv) : zkeys =
  match toks (send d "zob") with
  | "z" :: t :: rest ->
    let a = Array.of_list (List.map n_of_hex rest) in
    let sub o n = Array.to_list (Array.sub a o n) in
    (* ep keys were dumped per square; the model indexes by file: take squares 0..7 *)
    { zk_turn = n_of_hex t; zk_castling = sub 0 4; zk_ep = sub 4 8; zk_piece = sub (4 + 64) 768 }
  | _ -> failwith "zob"

let set_of_squares (l : n list) : n =
  let a = Array.make 64 false in
  List.iter (fun q -> let i = int_of_n q in if i < 64 then a.(i) <- true) l;
  n_of_bits (Array.to_list a)

(* ---------- operations ---------- *)
let expect_ok s r = if r <> "ok" then raise (Mismatch ("crash", "driver replied " ^ r ^ " at op " ^ string_of_int s.ops))

let op_new (s : sess) (dfrc : bool) (fen : string) =
  reset_log s.d;
  s.ops <- 0;
  expect_ok s (send s.d (Printf.sprintf "new %d %s" (if dfrc then 1 else 0) fen));
  s.dfrc <- dfrc;
  let f = if fen = "startpos" then "rnbqkbnr/pppppppp/8/8/8/8/PPPPPPPP/RNBQKBNR w KQkq - 0 1" else fen in
  let d' = if fen = "startpos" then false else dfrc in
  let mp = set_fen s.keys (str_of_string fen) dfrc in
  match of_fen d' (str_of_string f) with
  | None -> failwith ("of_fen rejects " ^ fen)
  | Some sp -> s.stack <- [ { mp; sg = g_start sp } ]

let op_setfen (s : sess) (dfrc : bool) (fen : string) =
  s.ops <- s.ops + 1;
  expect_ok s (send s.d (Printf.sprintf "setfen %d %s" (if dfrc then 1 else 0) fen));
  s.dfrc <- dfrc;
  let f = if fen = "startpos" then "rnbqkbnr/pppppppp/8/8/8/8/PPPPPPPP/RNBQKBNR w KQkq - 0 1" else fen in
  let d' = if fen = "startpos" then false else dfrc in
  let mp = set_fen_on s.keys (cur s).mp (str_of_string fen) dfrc in
  match of_fen d' (str_of_string f) with
  | None -> failwith ("of_fen rejects " ^ fen)
  | Some sp -> s.stack <- [ { mp; sg = g_start sp } ]

let op_make (s : sess) (m : move) =
  s.ops <- s.ops + 1;
  expect_ok s (send s.d (Printf.sprintf "make %d" (code_of_move m)));
  let n = cur s in
  s.stack <- { mp = makemove s.keys n.mp m; sg = g_move n.sg m } :: s.stack

let op_null (s : sess) =
  s.ops <- s.ops + 1;
  expect_ok s (send s.d "null");
  let n = cur s in
  s.stack <- { mp = makenull s.keys n.mp; sg = g_null n.sg } :: s.stack

(* undo: the spec side pops its own stack; the model side runs undomove / undonull *)
let op_undo (s : sess) ~(null : bool) =
  s.ops <- s.ops + 1;
  expect_ok s (send s.d (if null then "undonull" else "undo"));
  match s.stack with
  | top :: prev :: rest ->
    let mp' = if null then undonull top.mp else undomove top.mp in
    (* the spec says: exactly the earlier node.  Keep the model's own result for the tie. *)
    s.stack <- { mp = mp'; sg = prev.sg } :: rest;
    prev
  | _ -> failwith "undo on empty stack"

(* ---------- observations ---------- *)
type cstate = { cp : position; chash : n; ccalc : n; cvalid : bool; chist : int }

let parse_state (line : string) : cstate =
  match toks line with
  | [ "S"; w; b; p; n_; bi; r; q; k; turn; c0; c1; c2; c3; r0; r1; r2; r3; ep; half; full; h; calc; valid; hl ] ->
    let brd = { b_white = n_of_hex w; b_black = n_of_hex b; b_pawn = n_of_hex p; b_knight = n_of_hex n_;
                b_bishop = n_of_hex bi; b_rook = n_of_hex r; b_queen = n_of_hex q; b_king = n_of_hex k } in
    let i x = n_of_int (int_of_string x) in
    let cp = { brd; halfmove = n_of_dec half; fullmove = n_of_dec full; ep = i ep; hash = n_of_hex h;
               c0 = c0 = "1"; c1 = c1 = "1"; c2 = c2 = "1"; c3 = c3 = "1"; r0 = i r0; r1 = i r1; r2 = i r2; r3 = i r3;
               to_move = side_of_int (int_of_string turn); history = [] } in
    { cp; chash = n_of_hex h; ccalc = n_of_hex calc; cvalid = valid = "1"; chist = int_of_string hl }
  | _ -> raise (Mismatch ("crash", "unparsable state line: " ^ line))

let show_spos (p : spos) = string_of_str (fen_of true p)

(* the full-move number is a std::size_t in the C++ and an unbounded N in M and S: the tie is "C++ counter = model counter
   mod 2^64" (coq/CounterWrap.v: wrap64, proved to be a simulation of the machine's wrapping += / -=).  The identity below
   2^64, i.e. everywhere except on the scripts and starts that cross the wrap on purpose. *)
let w64 : n = n_of_dec "18446744073709551616"
let wrap64 (x : n) : n = N.modulo x w64

let same_model_state (a : position) (b : position) : bool =
  a.brd = b.brd && a.halfmove = b.halfmove && a.fullmove = wrap64 b.fullmove && a.ep = b.ep && a.hash = b.hash
  && a.c0 = b.c0 && a.c1 = b.c1 && a.c2 = b.c2 && a.c3 = b.c3 && a.to_move = b.to_move
  && ((not a.c0) || a.r0 = b.r0) && ((not a.c1) || a.r1 = b.r1) && ((not a.c2) || a.r2 = b.r2) && ((not a.c3) || a.r3 = b.r3)

let get_state (s : sess) : cstate = parse_state (send s.d "state")

(* state vs S (through abs of the dumped C++ state) and vs M; hash = calculate_hash; valid() *)
let obs_state ?(want_valid = true) (s : sess) : cstate =
  let c = get_state s in
  let n = cur s in
  let a = abs c.cp in
  let want = { n.sg.g_cur with s_full = wrap64 n.sg.g_cur.s_full } in
  if a <> want then
    fail_spec "state: C++ position %s differs from the position prescribed by the rules %s%s" (show_spos a) (show_spos want)
      (if want <> n.sg.g_cur then " (full-move number modulo 2^64)" else "");
  if c.chash <> c.ccalc then fail_spec "hash() %s <> calculate_hash() %s" (hex_of_n c.chash) (hex_of_n c.ccalc);
  if want_valid && not c.cvalid then fail_spec "valid() is false on a legal history";
  if not (same_model_state c.cp n.mp) then fail_model "state: C++ raw state differs from the model's";
  if c.chist <> List.length n.mp.history then fail_model "history length %d <> model %d" c.chist (List.length n.mp.history);
  bump "obs_state";
  c

let parse_hist (line : string) : (string * int * int * n * string) list =
  match String.split_on_char '|' line with
  | _ :: recs -> List.map (fun r -> match toks r with
      | [ h; mv; ep; half; c ] -> (h, int_of_string mv, int_of_string ep, n_of_dec half, c)
      | _ -> raise (Mismatch ("crash", "bad hist record " ^ r))) recs
  | [] -> []

let hist_of_model (mp : position) =
  List.map (fun (r : hrec) ->
      (hex_of_n r.h_hash, code_of_move r.h_move, int_of_n r.h_ep, r.h_half,
       String.concat "" (List.map (fun b -> if b then "1" else "0") [ r.h_c0; r.h_c1; r.h_c2; r.h_c3 ]))) mp.history

let obs_hist (s : sess) =
  let line = send s.d "hist" in
  let h = parse_hist line in
  if h <> hist_of_model (cur s).mp then fail_model "history records differ from the model's";
  bump "obs_hist";
  line

(* move lists *)
let parse_lists (line : string) : string list list =
  List.map toks (String.split_on_char ';' line)

let codes_of_section (l : string list) : int list =
  match l with
  | n :: rest ->
    let c = List.map int_of_string rest in
    if int_of_string n <> List.length c then raise (Mismatch ("crash", "list length field")) else c
  | [] -> raise (Mismatch ("crash", "empty section"))

let is_cap_code c = let t = c lsr 21 in t = 1 || t = 3 || t = 7
let has_dups l = let rec go = function a :: (b :: _ as r) -> a = b || go r | _ -> false in go l

type mv_obs = { spec : move list; legal_cpp : int list }

let obs_moves (s : sess) : mv_obs =
  let n = cur s in
  let spec = spec_moves n.sg.g_cur in
  let sc = sorted_codes spec in
  let line = send s.d "moves" in
  (match parse_lists line with
   | [ "M" :: lm; caps; noncaps; [ cnt ]; ev ] ->
     let lm = codes_of_section lm and caps = codes_of_section caps and noncaps = codes_of_section noncaps
     and ev = codes_of_section ev in
     let srt = List.sort compare in
     if srt lm <> sc then
       fail_spec "legal_moves: C++ {%s} <> rules {%s}" (show_codes (srt lm)) (show_codes sc);
     if srt caps <> List.filter is_cap_code sc then fail_spec "legal_captures <> capturing subset of the legal moves: {%s}" (show_codes (srt caps));
     if srt noncaps <> List.filter (fun c -> not (is_cap_code c)) sc then fail_spec "legal_noncaptures <> non-capturing subset: {%s}" (show_codes (srt noncaps));
     if int_of_string cnt <> List.length sc then fail_spec "count_moves %s <> %d" cnt (List.length sc);
     (* check_evasions: only legal moves, and every legal king step (king moves other than castling) *)
     let king_steps = List.filter (fun c -> (c lsr 6) land 7 = 5 && (c lsr 21) <> 4 && (c lsr 21) <> 5) sc in
     List.iter (fun c -> if not (List.mem c sc) then fail_spec "check_evasions returns an illegal move %s" (show_move (move_of_code c))) ev;
     List.iter (fun c -> if not (List.mem c ev) then fail_spec "check_evasions misses the king step %s" (show_move (move_of_code c))) king_steps;
     if has_dups (srt ev) then fail_spec "check_evasions returns a move twice";
     (* tie: the model's lists, same multiset *)
     if srt lm <> sorted_codes (legal_moves n.mp) then fail_model "legal_moves differs from the model's";
     if srt caps <> sorted_codes (legal_captures n.mp) then fail_model "legal_captures differs from the model's";
     if srt noncaps <> sorted_codes (legal_noncaptures n.mp) then fail_model "legal_noncaptures differs from the model's";
     if srt ev <> sorted_codes (check_evasions n.mp) then fail_model "check_evasions differs from the model's";
     bump "obs_moves";
     { spec; legal_cpp = lm }
   | _ -> raise (Mismatch ("crash", "unparsable moves line: " ^ line)))

let obs_movesinto (s : sess) (k : int) =
  let n = cur s in
  let sc = sorted_codes (spec_moves n.sg.g_cur) in
  let line = send s.d (Printf.sprintf "movesinto %d" k) in
  match parse_lists line with
  | [ "I" :: lm; caps; noncaps; [ ok ] ] ->
    let srt = List.sort compare in
    let lm = srt (codes_of_section lm) and caps = srt (codes_of_section caps) and noncaps = srt (codes_of_section noncaps) in
    if ok <> "1" then fail_spec "appending overload disturbed the caller's %d existing entries" k;
    if lm <> sc then fail_spec "legal_moves(vector&) appended {%s}" (show_codes lm);
    if caps <> List.filter is_cap_code sc then fail_spec "legal_captures(vector&) appended {%s}" (show_codes caps);
    if noncaps <> List.filter (fun c -> not (is_cap_code c)) sc then fail_spec "legal_noncaptures(vector&) appended {%s}" (show_codes noncaps);
    bump "obs_movesinto"
  | _ -> raise (Mismatch ("crash", "unparsable movesinto line: " ^ line))

(* is_legal on members and on near misses: pseudo-legal but illegal candidates and label variations *)
let obs_islegal (s : sess) (r : rng) (spec : move list) =
  let n = cur s in
  let sc = sorted_codes spec in
  let pseudo = sorted_codes (pseudo_moves n.sg.g_cur) in
  let illegal = List.filter (fun c -> not (List.mem c sc)) pseudo in
  let mutate c =
    let m = move_of_code c in
    match rand r 4 with
    | 0 -> { m with m_to = n_of_int (rand r 64) }
    | 1 -> { m with m_cap = piece_of_int (rand r 5) }
    | 2 -> { m with m_piece = piece_of_int (rand r 6) }
    | _ -> { m with m_type = mtypes_arr.(rand r 4) } in
  let muts = List.filter_map (fun c -> let m = mutate c in
                               let ok = int_of_n m.m_from <> int_of_n m.m_to && m.m_piece <> NoPiece in
                               if ok then Some (code_of_move m) else None) (List.filteri (fun i _ -> i < 6) sc) in
  let queries = sc @ illegal @ muts in
  if queries <> [] then begin
    let line = send s.d ("islegal " ^ String.concat " " (List.map string_of_int queries)) in
    match toks line with
    | "L" :: ans ->
      List.iter2 (fun c a ->
          let want = List.mem c sc in
          if (a = "1") <> want then fail_spec "is_legal(%s) = %s, rules say %b" (show_move (move_of_code c)) a want;
          if (a = "1") <> is_legal n.mp (move_of_code c) then fail_model "is_legal differs from the model's") queries ans;
      bump ~by:(List.length queries) "is_legal_queries";
      bump ~by:(List.length illegal) "is_legal_pseudo_illegal"
    | _ -> raise (Mismatch ("crash", "unparsable islegal line"))
  end

(* attack-type sets for both sides *)
let obs_attacks (s : sess) =
  let n = cur s in
  let sp = n.sg.g_cur in
  let b = sp.s_board in
  let line = send s.d "attacks" in
  match toks line with
  | [ "A"; saw; sab; kaw; kab; ka; pw; pb; pn; ppw; ppb; pp; chk; inchk ] ->
    let hx l = hex_of_n (set_of_squares l) in
    let want name got spec_v = if got <> spec_v then fail_spec "%s: C++ %s, geometry says %s" name got spec_v in
    want "squares_attacked(White)" saw (hx (spec_squares_attacked b White));
    want "squares_attacked(Black)" sab (hx (spec_squares_attacked b Black));
    want "king_allowed(White)" kaw (hx (spec_king_allowed b White));
    want "king_allowed(Black)" kab (hx (spec_king_allowed b Black));
    want "king_allowed()" ka (hx (spec_king_allowed b sp.s_turn));
    want "pinned(White)" pw (hx (spec_pinned b White));
    want "pinned(Black)" pb (hx (spec_pinned b Black));
    want "pinned()" pn (hx (spec_pinned b sp.s_turn));
    want "passed_pawns(White)" ppw (hx (spec_passed b White));
    want "passed_pawns(Black)" ppb (hx (spec_passed b Black));
    want "passed_pawns()" pp (hx (spec_passed b sp.s_turn));
    (match find_king b sp.s_turn with
     | Some k -> want "checkers()" chk (hx (attackers_of b k (opp_side sp.s_turn)))
     | None -> ());
    want "in_check()" inchk (if spec_in_check sp then "1" else "0");
    let mp = n.mp in
    let tie name got v = if got <> hex_of_n v then fail_model "%s differs from the model's" name in
    tie "squares_attacked(White)" saw (squares_attacked mp White); tie "squares_attacked(Black)" sab (squares_attacked mp Black);
    tie "king_allowed(White)" kaw (king_allowed_s mp White); tie "king_allowed(Black)" kab (king_allowed_s mp Black);
    tie "pinned(White)" pw (pinned_s mp White); tie "pinned(Black)" pb (pinned_s mp Black); tie "pinned()" pn (pinned mp);
    tie "passed_pawns(White)" ppw (passed_pawns_s mp White); tie "passed_pawns(Black)" ppb (passed_pawns_s mp Black);
    tie "checkers()" chk (checkers mp);
    bump "obs_attacks";
    (saw, sab, pw, pb, chk)
  | _ -> raise (Mismatch ("crash", "unparsable attacks line: " ^ line))

let obs_attackers (s : sess) =
  let n = cur s in
  let b = n.sg.g_cur.s_board in
  let line = send s.d "attackers" in
  match toks line with
  | "T" :: vals when List.length vals = 128 ->
    List.iteri (fun i v ->
        let side = side_of_int (i / 64) and q = i mod 64 in
        if String.contains v '!' then fail_spec "square_attacked(%s) disagrees with attackers() being non-empty" (sq_name q);
        let want = hex_of_n (set_of_squares (attackers_of b (n_of_int q) side)) in
        if v <> want then fail_spec "attackers(%s,%d): C++ %s, geometry says %s" (sq_name q) (i / 64) v want;
        if v <> hex_of_n (attackers n.mp (n_of_int q) side) then fail_model "attackers differs from the model's") vals;
    bump ~by:128 "attackers_queries"
  | _ -> raise (Mismatch ("crash", "unparsable attackers line"))

(* game-end predicates.  Returns (threefold_cpp, skipped) *)
let ep_capture_possible (sp : spos) : bool =
  List.exists (fun (m : move) -> m.m_type = Enpassant) (spec_moves sp)

(* FIDE vs library: an ep square on which no capture is possible distinguishes positions for the library only.
   Such occurrences are never used to decide a verdict (C09's quantifier). *)
let strip_dead_ep (sp : spos) : spos =
  match sp.s_ep with Some _ when not (ep_capture_possible sp) -> { sp with s_ep = None } | _ -> sp

let obs_game (s : sess) =
  let n = cur s in
  let g = n.sg in
  let line = send s.d "game" in
  match toks line with
  | [ "G"; three; fifty; draw; mate; stale; term ] ->
    let b x = if x then "1" else "0" in
    let ambiguous =
      let g' = { g_cur = strip_dead_ep g.g_cur; g_past = List.map strip_dead_ep g.g_past } in
      spec_threefold g' <> spec_threefold g in
    if ambiguous then bump "threefold_skipped_dead_ep"
    else begin
      if three <> b (spec_threefold g) then
        fail_spec "threefold() = %s but the position has occurred %d time(s) in the reversible window" three (int_of_n (occurrences g));
      if draw <> b (spec_draw g) then fail_spec "is_draw() = %s, definition says %b" draw (spec_draw g);
      if term <> b (spec_terminal g) then fail_spec "is_terminal() = %s, definition says %b" term (spec_terminal g)
    end;
    if fifty <> b (spec_fifty g.g_cur) then fail_spec "fiftymoves() = %s with half-move clock %d" fifty (int_of_n g.g_cur.s_half);
    if mate <> b (spec_checkmate g.g_cur) then fail_spec "is_checkmate() = %s, definition says otherwise" mate;
    if stale <> b (spec_stalemate g.g_cur) then fail_spec "is_stalemate() = %s, definition says otherwise" stale;
    if mate = "1" && stale = "1" then fail_spec "checkmate and stalemate both true";
    let mp = n.mp in
    if three <> b (threefold mp) then fail_model "threefold differs from the model's";
    if draw <> b (is_draw mp) || term <> b (is_terminal mp) || mate <> b (is_checkmate mp) || stale <> b (is_stalemate mp)
       || fifty <> b (fiftymoves mp) then fail_model "game predicates differ from the model's";
    bump "obs_game";
    if three = "1" then bump "threefold_true";
    if mate = "1" then bump "checkmates"; if stale = "1" then bump "stalemates";
    three = "1"
  | _ -> raise (Mismatch ("crash", "unparsable game line: " ^ line))

(* text of every legal move, move_string in both modes, predict_hash *)
let obs_text (s : sess) ~(check_predict : bool) =
  let n = cur s in
  let sp = n.sg.g_cur in
  let line = send s.d "text" in
  match toks line with
  | "X" :: items ->
    let spec = spec_moves sp in
    if List.length items <> List.length spec then fail_spec "text: %d legal moves, rules say %d" (List.length items) (List.length spec);
    let seen = Hashtbl.create 64 in
    List.iter (fun it ->
        match String.split_on_char ':' it with
        | [ c; txt; ms0; ms1; ph ] ->
          let m = move_of_code (int_of_string c) in
          let txt = unhexstr txt and ms0 = unhexstr ms0 and ms1 = unhexstr ms1 in
          let f = int_of_n m.m_from and t = int_of_n m.m_to in
          let want = sq_name f ^ sq_name t ^ (match m.m_promo with Knight -> "n" | Bishop -> "b" | Rook -> "r" | Queen -> "q" | _ -> "") in
          if txt <> want then fail_spec "text of %s is %S, expected %S" (show_move m) txt want;
          if ms1 <> want then fail_spec "move_string(m,true) of %s is %S" (show_move m) ms1;
          let want0 = match m.m_type, sp.s_turn with
            | Ksc, White -> "e1g1" | Ksc, Black -> "e8g8" | Qsc, White -> "e1c1" | Qsc, Black -> "e8c8" | _ -> want in
          if ms0 <> want0 then fail_spec "move_string(m,false) of %s is %S, expected %S" (show_move m) ms0 want0;
          if Hashtbl.mem seen txt then fail_spec "two legal moves share the text %S" txt;
          Hashtbl.add seen txt ();
          if check_predict then begin
            (* oracle: the hash the C++ itself has after makemove(m); done by the caller through make/undo.  Here: tie to M
               and to calculate_hash of the model successor (= C05-proved hash of the successor) *)
            let succ = makemove s.keys n.mp m in
            if ph <> hex_of_n succ.hash then
              fail_spec "predict_hash(%s) = %s but the position after makemove has hash %s" (show_move m) ph (hex_of_n succ.hash);
            if ph <> hex_of_n (predict_hash s.keys n.mp m) then fail_model "predict_hash differs from the model's";
            bump "predict_hash_moves"
          end;
          if move_string n.mp m false <> str_of_string ms0 || move_string n.mp m true <> str_of_string ms1
             || move_text m <> str_of_string txt then fail_model "move text differs from the model's"
        | _ -> raise (Mismatch ("crash", "bad text item " ^ it))) items;
    bump "obs_text";
    items
  | _ -> raise (Mismatch ("crash", "unparsable text line"))

let obs_fen (s : sess) =
  let n = cur s in
  let line = send s.d "fen" in
  match toks line with
  | [ "F"; f0; f1 ] ->
    let f0 = unhexstr f0 and f1 = unhexstr f1 in
    (* the printed full-move number is the size_t counter: the rules' / the model's number modulo 2^64 (CounterWrap.v) *)
    let g = { n.sg.g_cur with s_full = wrap64 n.sg.g_cur.s_full } and mp = { n.mp with fullmove = wrap64 n.mp.fullmove } in
    let w0 = string_of_str (fen_of false g) and w1 = string_of_str (fen_of true g) in
    if f1 <> w1 then fail_spec "get_fen(true) = %S, canonical FEN is %S" f1 w1;
    if f0 <> w0 then fail_spec "get_fen(false) = %S, canonical FEN is %S" f0 w0;
    if str_of_string f0 <> get_fen mp false || str_of_string f1 <> get_fen mp true then fail_model "get_fen differs from the model's";
    bump "obs_fen";
    (f0, f1)
  | _ -> raise (Mismatch ("crash", "unparsable fen line"))

let obs_print (s : sess) =
  let n = cur s in
  let line = send s.d "print" in
  match toks line with
  | [ "P"; h ] ->
    let txt = unhexstr h in
    (* the placement part: 8 lines of 8 characters, rank 8 first *)
    let b = n.sg.g_cur.s_board in
    let want = Buffer.create 80 in
    for r = 7 downto 0 do
      for f = 0 to 7 do
        Buffer.add_char want (match at_sq b (n_of_int (8 * r + f)) with
            | None -> '-'
            | Some (sd, pc) ->
              let c = (match pc with Pawn -> 'P' | Knight -> 'N' | Bishop -> 'B' | Rook -> 'R' | Queen -> 'Q' | King -> 'K' | NoPiece -> '?') in
              if sd = White then c else Char.lowercase_ascii c)
      done;
      Buffer.add_char want '\n'
    done;
    let w = Buffer.contents want in
    if String.length txt < String.length w || String.sub txt 0 (String.length w) <> w then
      fail_spec "stream printer shows a different placement";
    if str_of_string txt <> print_position n.mp then fail_model "printer output differs from the model's";
    bump "obs_print"
  | _ -> raise (Mismatch ("crash", "unparsable print line"))

(* features of the current position, for the evidence's distinct_nontrivial count *)
let features (s : sess) (spec : move list) : string list =
  let sp = sp_of s in
  let b = sp.s_board in
  let f = ref [] in
  let add x = f := x :: !f in
  (match find_king b sp.s_turn with
   | Some k ->
     let a = attackers_of b k (opp_side sp.s_turn) in
     if List.length a = 1 then add "check"; if List.length a >= 2 then add "double_check"
   | None -> ());
  if spec_pinned b sp.s_turn <> [] then add "pin";
  if List.exists (fun (m : move) -> m.m_type = Enpassant) spec then add "ep_capture";
  if sp.s_ep <> None then add "ep_square";
  if sp.s_wk <> None || sp.s_wq <> None || sp.s_bk <> None || sp.s_bq <> None then add "castling_right";
  if List.exists (fun (m : move) -> m.m_type = Ksc || m.m_type = Qsc) spec then add "castling_move";
  if List.exists (fun (m : move) -> m.m_type = Promo || m.m_type = PromoCapture) spec then add "promotion";
  !f

let note_position (s : sess) (spec : move list) =
  let fs = features s spec in
  List.iter (fun x -> bump ("feature_" ^ x)) fs;
  bump "positions";
  if fs <> [] then note_distinct (string_of_str (fen_of true (sp_of s)))
