(* special.ml — property modes with their own input structure: C06 (FEN spellings), C09 (repetition
   templates), C20's rejection clause. *)
open Lcmodel
open Base
open Sess
open Gens

let violations_hook : (sess -> (unit -> unit) -> unit) ref = ref (fun _ f -> f ())

(* ----- C06 ----- *)
let rec permutations = function
  | [] -> [ [] ]
  | l -> List.concat_map (fun x -> List.map (fun p -> x :: p) (permutations (List.filter (fun y -> y != x) l))) l

let c06_case (s : sess) (r : rng) (d : bool) (p : spos) =
  let canon = fen_string d p in
  (match of_fen d (str_of_string canon) with
   | Some p' when p' = p -> ()
   | _ -> failwith ("harness: of_fen (fen_of p) <> p for " ^ canon));
  (* 1. canonical FEN decodes to exactly p *)
  op_new s d canon;
  let c = obs_state s in
  if abs c.cp <> p then fail_spec "set_fen(%S) does not yield the described position" canon;
  ignore (obs_fen s); obs_print s;
  bump "fen_canonical";
  (* 2. other spellings of the castling field *)
  let fields = String.split_on_char ' ' canon in
  let cf = List.nth fields 2 in
  let chars = if cf = "-" then [] else List.init (String.length cf) (fun i -> String.make 1 cf.[i]) in
  let variants = ref [] in
  let add v = if v <> cf && not (List.mem v !variants) then variants := v :: !variants in
  if chars <> [] then begin
    let perms = permutations chars in
    List.iter (fun pm -> if chance r 1 3 then add (String.concat "" pm)) perms;
    (* subsets *)
    for mask = 1 to (1 lsl List.length chars) - 2 do
      if chance r 1 2 then add (String.concat "" (List.filteri (fun i _ -> mask land (1 lsl i) <> 0) chars))
    done
  end;
  if d then begin
    (* X-FEN letters instead of file letters (outermost rook), and letters without a rook *)
    let xfen = String.concat "" (List.filter_map (fun (o, c) -> match o with Some _ -> Some c | None -> None)
                                   [ (p.s_wk, "K"); (p.s_wq, "Q"); (p.s_bk, "k"); (p.s_bq, "q") ]) in
    if xfen <> "" then add xfen;
    (* MIXED fields: some rights by file letter, others by K/Q/k/q — what X-FEN actually prescribes when only some of the
       castling rooks are not the outermost ones *)
    if chars <> [] then
      for _ = 1 to 3 do
        let kfile s_ = match find_king p.s_board s_ with Some k -> int_of_n k mod 8 | None -> 4 in
        add (String.concat "" (List.map (fun c ->
            let ch = c.[0] in
            let white = ch >= 'A' && ch <= 'H' in
            let file = Char.code (Char.lowercase_ascii ch) - 97 in
            if chance r 1 2 then c
            else begin
              let kingside = file > kfile (if white then White else Black) in
              let l = if kingside then "k" else "q" in
              if white then String.uppercase_ascii l else l
            end) chars))
      done;
    add ((if cf = "-" then "" else cf) ^ String.make 1 (Char.chr (65 + rand r 8)));
    add (String.make 1 (Char.chr (97 + rand r 8)) ^ (if cf = "-" then "" else cf));
    add "KQkq"
  end else begin
    add "KQkq"; add "qkQK"; add ((if cf = "-" then "" else cf) ^ "K")
  end;
  List.iter (fun v ->
      let fen = String.concat " " (List.mapi (fun i f -> if i = 2 then v else f) fields) in
      match of_fen d (str_of_string fen) with
      | Some q when lc d q ->
        op_new s d fen;
        ignore (obs_state s);          (* abs (C++ state) = of_fen (independent decoder) *)
        ignore (obs_fen s);
        bump "fen_spellings"
      | _ -> bump "fen_spelling_skipped_not_legal_consistent") !variants

let run_c06 (s : sess) (r : rng) corpus quick nshards budget run_case =
  let n = (if budget > 0 then budget else if quick then 4000 else 150000) / nshards in
  (* maximal-length placement fields *)
  let found = ref 0 and tries = ref 0 in
  while !found < (if quick then 6 else 200) && !tries < 4000 do
    incr tries;
    match long_placement r with
    | Some p -> incr found; run_case s (fun () -> bump "source_long_placement"; c06_case s r true p; if std_expressible p then c06_case s r false p)
    | None -> ()
  done;
  (* Chess960 KQkq with further rooks of the same colour elsewhere on the board (the outermost rook ON THE BACK RANK counts) *)
  List.iter (fun (d, p) ->
      run_case s (fun () ->
          let a = Array.of_list p.s_board in
          for _ = 1 to 1 + rand r 2 do
            let q = 8 + rand r 48 in
            if a.(q) = None then a.(q) <- Some ((if chance r 1 2 then White else Black), Rook)
          done;
          let p' = { p with s_board = Array.to_list a } in
          if lc true p' then begin bump "source_xfen_extra_rooks"; c06_case s r true p' end)) (castling_family r ((if quick then 160 else 3000) / nshards));
  run_case s (fun () ->
      List.iter (fun d ->
          op_new s d "startpos";
          let c = obs_state s in
          let std = dfrc_start 518 518 in
          if (abs c.cp).s_board <> std.s_board then fail_spec "startpos is not the standard initial position";
          ignore (obs_fen s)) [ false; true ]);
  List.iter (fun (d, p, tag) ->
      (* one position in six with counters at the boundaries of 8-, 16-, 32- and 64-bit integers and of 19/20 decimal digits *)
      let p = if p.s_ep = None && chance r 1 6 then
          { p with s_half = n_of_dec [| "255"; "256"; "65535"; "65536"; "4294967295"; "4294967296"; "9223372036854775807"; "9223372036854775808";
                                        "9999999999999999999"; "10000000000000000000"; "18446744073709551615" |].(rand r 11);
                   s_full = n_of_dec [| "0"; "255"; "65536"; "4294967296"; "9223372036854775807"; "9223372036854775808"; "12345678901234567890";
                                        "18446744073709551615" |].(rand r 8) }
        else p in
      run_case s (fun () ->
          bump ("source_" ^ tag);
          if List.length !samples < 4 then add_sample (fen_string d p);
          c06_case s r d p;
          (* the other mode too, when the position is expressible there *)
          if d && std_expressible p then c06_case s r false p
          else if not d then c06_case s r true p;
          note_position s (spec_moves (sp_of s)))) (start_positions r corpus n)

(* ----- C07 object reuse ----- *)
let run_c07_reuse (s : sess) (r : rng) corpus quick nshards budget run_case =
  let n = (if budget > 0 then budget else if quick then 1500 else 60000) / nshards in
  (* the keyword "startpos" on an object that already holds the initial placement — with other counters, in either mode,
     with and without a history — and the same FEN string given twice *)
  List.iter (fun (d1, f1, plies, d2) ->
      run_case s (fun () ->
          op_new s d1 f1;
          for _ = 1 to plies do match spec_moves (sp_of s) with [] -> () | l -> op_make s (pick r l) done;
          for _ = 1 to plies do ignore (op_undo s ~null:false) done;
          op_setfen s d2 "startpos";
          let reused = obs_state s in
          let h1 = send s.d "hist" and m1 = send s.d "moves" and fe1 = send s.d "fen" in
          op_new s d2 "startpos";
          let fresh = obs_state s in
          let h2 = send s.d "hist" and m2 = send s.d "moves" and fe2 = send s.d "fen" in
          if not (same_model_state reused.cp fresh.cp) || h1 <> h2 || m1 <> m2 || fe1 <> fe2 then
            fail_spec "set_fen(\"startpos\") on an object holding %S differs from a fresh Position" f1;
          bump "reuse_startpos_keyword"))
    (List.concat_map (fun (d1, f1) -> [ (d1, f1, 0, false); (d1, f1, 0, true); (d1, f1, 2, false) ])
       [ (false, "rnbqkbnr/pppppppp/8/8/8/8/PPPPPPPP/RNBQKBNR w KQkq - 0 0");
         (false, "rnbqkbnr/pppppppp/8/8/8/8/PPPPPPPP/RNBQKBNR w KQkq - 100 53");
         (true, "rnbqkbnr/pppppppp/8/8/8/8/PPPPPPPP/RNBQKBNR w HAha - 7 1");
         (true, "rnbqkbnr/pppppppp/8/8/8/8/PPPPPPPP/RNBQKBNR w HAha - 0 1");
         (false, "rnbqkbnr/pppppppp/8/8/8/8/PPPPPPPP/RNBQKBNR w KQkq - 0 1");
         (false, "rnbqkbnr/pppppppp/8/8/8/8/PPPPPPPP/RNBQKBNR w Qkq - 0 1");
         (false, "rnbqkbnr/pppppppp/8/8/8/8/PPPPPPPP/RNBQKBNR b KQkq - 3 9") ]);
  let starts = Array.of_list (start_positions r corpus (max 2 n)) in
  for i = 0 to Array.length starts - 2 do
    let d1, p1, _ = starts.(i) and d2, p2, _ = starts.(i + 1) in
    run_case s (fun () ->
        (* dirty the object: load p1, play a few moves (history, lost rights, ep), then set_fen p2 on it *)
        op_new s d1 (fen_string d1 p1);
        for _ = 1 to rand r 8 do
          match spec_moves (sp_of s) with [] -> () | l -> op_make s (pick r l)
        done;
        if chance r 1 4 && not (spec_in_check (sp_of s)) then op_null s;
        let f2 = fen_string d2 p2 in
        op_setfen s d2 f2;
        let reused = obs_state s in
        let h1 = send s.d "hist" and m1 = send s.d "moves" and fe1 = send s.d "fen" in
        op_new s d2 f2;
        let fresh = obs_state s in
        let h2 = send s.d "hist" and m2 = send s.d "moves" and fe2 = send s.d "fen" in
        if not (same_model_state reused.cp fresh.cp) then fail_spec "set_fen on a used object differs from a fresh Position for %S" f2;
        if h1 <> h2 || reused.chist <> 0 then fail_spec "set_fen on a used object keeps history";
        if m1 <> m2 || fe1 <> fe2 then fail_spec "set_fen on a used object: legal moves / FEN differ from a fresh Position";
        bump "reuse_pairs"; note_position s (spec_moves (sp_of s)));
    (* the object holds p1 loaded in one mode, untouched; the new FEN is the rendering of the same placement in the OTHER
       mode (what get_fen(other mode) prints): character for character what the object would print, yet another position
       as far as castling rooks are concerned *)
    if i mod 3 = 0 then
      run_case s (fun () ->
          let fa = fen_string d1 p1 in
          op_new s d1 fa;
          (match toks (send s.d "fen") with
           | [ "F"; fstd; fdfrc ] ->
             let other = not d1 in
             let f2 = unhexstr (if other then fdfrc else fstd) in
             (match of_fen other (str_of_string f2) with
              | Some q when lc other q ->
                op_setfen s other f2;
                let reused = obs_state s in
                let m1 = send s.d "moves" and fe1 = send s.d "fen" in
                op_new s other f2;
                let fresh = obs_state s in
                let m2 = send s.d "moves" and fe2 = send s.d "fen" in
                if not (same_model_state reused.cp fresh.cp) then fail_spec "set_fen(%S, mode %b) on an object holding %S (mode %b) differs from a fresh Position" f2 other fa d1;
                if m1 <> m2 || fe1 <> fe2 then fail_spec "set_fen(%S) on an object holding the same placement in the other mode: legal moves / FEN differ from a fresh Position" f2;
                bump "reuse_cross_mode"
              | _ -> bump "reuse_cross_mode_skipped")
           | _ -> raise (Mismatch ("crash", "fen line"))))
  done

(* ----- C09 repetition templates ----- *)
let reversible (m : move) = m.m_type = Normal && m.m_piece <> Pawn
let inverse (m : move) = { m with m_from = m.m_to; m_to = m.m_from }

let c09_case (s : sess) (r : rng) (d : bool) (p : spos) =
  op_new s d (fen_string d p);
  let check () = ignore (obs_state s); ignore (obs_game s) in
  check ();
  let plies = ref 0 in
  let play m = op_make s m; incr plies; check () in
  let legal m = List.exists (fun x -> code_of_move x = code_of_move m) (spec_moves (sp_of s)) in
  let alive = ref true in
  let segments = 2 + rand r 5 in
  for _ = 1 to segments do
    if !alive && !plies < 120 then begin
      match rand r 10 with
      | 0 when not (spec_in_check (sp_of s)) ->
        (* a pair of null moves: the position recurs although nothing irreversible happened on the board *)
        op_null s; check ();
        if not (spec_in_check (sp_of s)) then begin op_null s; check () end;
        bump "null_pairs"
      | 1 ->
        (* an arbitrary (possibly irreversible) move *)
        (match spec_moves (sp_of s) with [] -> alive := false | l -> play (pick r l))
      | _ ->
        (* pendulum: L reversible moves per side out, the inverses back; repeated *)
        let l = 1 + rand r 2 in
        let reps = 1 + rand r 3 in
        let out = ref [] in
        let ok = ref true in
        for _ = 1 to 2 * l do
          if !ok then
            match List.filter (fun m -> reversible m) (spec_moves (sp_of s)) with
            | [] -> ok := false
            | cands ->
              (* prefer moves that do not lose castling rights half of the time *)
              let m = pick r cands in
              out := m :: !out; play m
        done;
        if !ok then begin
          let path = List.rev !out in                       (* w1 b1 w2 b2 .. *)
          let back = List.map inverse (List.rev path) in    (* inverses in reverse order *)
          (* the side to move now must own the first inverse: the last mover was the other side, so
             the first inverse (of the last move) belongs to the side that just moved — not on move.
             Playing order must alternate: take the inverses of the *mover's own* last move first. *)
          let mine = List.filteri (fun i _ -> i mod 2 = 1) back and theirs = List.filteri (fun i _ -> i mod 2 = 0) back in
          let rec interleave a b = match a, b with x :: a', y :: b' -> x :: y :: interleave a' b' | _, _ -> [] in
          let home = interleave mine theirs in
          let cycle = home in
          let fwd = path in
          (try
             for rep = 1 to reps do
               List.iter (fun m -> if legal m then play m else raise Exit) cycle;
               if rep < reps then List.iter (fun m -> if legal m then play m else raise Exit) fwd
             done;
             bump "pendulum_cycles"
           with Exit -> ())
        end
    end
  done;
  (* undo everything: earlier answers come back exactly *)
  let answers = ref [] in
  ignore answers;
  while List.length s.stack > 1 do
    let top = cur s in
    let null = (match top.mp.history with h :: _ -> code_of_move h.h_move = 0 && h.h_ep = (List.nth s.stack 1).mp.ep && (List.nth s.stack 1).mp.halfmove = h.h_half
                                              && top.mp.halfmove = N0 && top.mp.brd = (List.nth s.stack 1).mp.brd | [] -> false) in
    ignore (op_undo s ~null);
    check ()
  done

let run_c09 (s : sess) (r : rng) corpus quick nshards budget run_case =
  let n = (if budget > 0 then budget else if quick then 1500 else 24000) / nshards in
  List.iter (fun (d, p, tag) ->
      (* vary the starting half-move clock *)
      let p = if p.s_ep = None then { p with s_half = n_of_int [| 0; 0; 7; 8; 99; 100; 150; 3 |].(rand r 8) } else p in
      run_case s (fun () ->
          bump ("source_" ^ tag);
          if List.length !samples < 4 then add_sample ("pendulum walk from " ^ fen_string d p);
          c09_case s r d p;
          note_position s (spec_moves (sp_of s)))) (start_positions r corpus n)

(* ----- C20 rejection clause (driver variant with NDEBUG + sanitizers) ----- *)
let run_c20_reject (s : sess) (r : rng) corpus quick nshards budget run_case =
  let n = (if budget > 0 then budget else if quick then 3000 else 100000) / nshards in
  List.iter (fun (d, p, _) ->
      run_case s (fun () ->
          reset_log s.d;
          let a = Array.of_list p.s_board in
          let kind = rand r 5 in
          let squares_of f = List.filter (fun q -> f a.(q)) (List.init 64 (fun i -> i)) in
          (match kind with
           | 0 -> (* missing king *)
             let s_ = if chance r 1 2 then White else Black in
             List.iter (fun q -> a.(q) <- None) (squares_of (fun c -> c = Some (s_, King)))
           | 1 -> (* duplicated king *)
             let s_ = if chance r 1 2 then White else Black in
             (match squares_of (fun c -> c = None) with [] -> () | l -> a.(pick r l) <- Some (s_, King))
           | 4 -> (* one side without a king AND the other with two: the total is still two *)
             let s_ = if chance r 1 2 then White else Black in
             List.iter (fun q -> a.(q) <- None) (squares_of (fun c -> c = Some (s_, King)));
             (match squares_of (fun c -> c = None) with [] -> () | l -> a.(pick r l) <- Some (opp_side s_, King))
           | 2 -> (* pawn on the first or eighth rank *)
             let q = (if chance r 1 2 then 0 else 56) + rand r 8 in
             if a.(q) = None || (match a.(q) with Some (_, King) -> false | _ -> true) then a.(q) <- Some ((if chance r 1 2 then White else Black), Pawn)
           | _ -> ());
          let broken = { p with s_board = Array.to_list a; s_wk = None; s_wq = None; s_bk = None; s_bq = None; s_ep = None } in
          let broken = if kind = 3 then { broken with s_turn = opp_side broken.s_turn } else broken in
          (* kind 3: hand the move to the other side; violates the domain only when that leaves the side not to move in check *)
          let violates =
            let b = broken.s_board in
            let count f = List.length (List.filter f b) in
            count (fun c -> c = Some (White, King)) <> 1 || count (fun c -> c = Some (Black, King)) <> 1
            || List.exists (fun q -> match List.nth b q with Some (_, Pawn) -> q < 8 || q >= 56 | _ -> false) (List.init 64 (fun i -> i))
            || king_attacked b (opp_side broken.s_turn) in
          if violates then begin
            let fen = fen_string true broken in
            ignore (send s.d ("new 1 " ^ fen));
            let c = parse_state (send s.d "state") in
            if c.cvalid then fail_spec "valid() accepts %S" fen;
            if valid s.keys (set_fen s.keys (str_of_string fen) true) then fail_model "model valid() accepts %S" fen;
            bump "rejected_fens"; bump ("reject_kind_" ^ string_of_int kind);
            note_distinct fen;
            if List.length !samples < 4 then add_sample ("must be rejected: " ^ fen)
          end else bump "reject_candidate_still_valid";
          ignore d)) (start_positions r corpus n)

let run (s : sess) (r : rng) corpus (prop : string) (tier : string) (nshards : int) (budget : int) =
  let quick = tier = "quick" in
  let rc = !violations_hook in
  match prop with
  | "C06" -> run_c06 s r corpus quick nshards budget rc
  | "C07reuse" -> run_c07_reuse s r corpus quick nshards budget rc
  | "C09" -> run_c09 s r corpus quick nshards budget rc
  | "C20reject" -> run_c20_reject s r corpus quick nshards budget rc
  | p -> failwith ("unknown property mode " ^ p)
