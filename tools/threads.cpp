// threads.cpp — C19 harness: N threads each working on their own Position objects (loading FENs, generating,
// making and undoing moves, perft) while M threads call const queries on one shared Position; every result is
// compared with the single-threaded reference computed beforehand.  Built with clang -fsanitize=thread.
// usage: threads_tsan <nthreads> <iterations> <seed>      exit 0 = same results, no race report
#include <atomic>
#include <cstdint>
#include <cstdio>
#include <cstdlib>
#include <string>
#include <thread>
#include <vector>
#include "libchess/position.hpp"

using namespace libchess;

static const char *fens[] = {
    "rnbqkbnr/pppppppp/8/8/8/8/PPPPPPPP/RNBQKBNR w KQkq - 0 1",
    "r3k2r/p1ppqpb1/bn2pnp1/3PN3/1p2P3/2N2Q1p/PPPBBPPP/R3K2R w KQkq - 0 1",
    "8/2p5/3p4/KP5r/1R3p1k/8/4P1P1/8 w - - 0 1",
    "r3k2r/Pppp1ppp/1b3nbN/nP6/BBP1P3/q4N2/Pp1P2PP/R2Q1RK1 w kq - 0 1",
    "rnbq1k1r/pp1Pbppp/2p5/8/2B5/8/PPP1NnPP/RNBQK2R w KQ - 1 8",
    "bqnb1rkr/pp3ppp/3ppn2/2p5/5P2/P2P4/NPP1P1PP/BQ1BNRKR w HFhf - 2 9",
    "1rqbkrbn/1ppppp1p/1n6/p1N3p1/8/2P4P/PP1PPPP1/1RQBKRBN w FBfb - 0 9",
};
static const int NF = sizeof(fens) / sizeof(fens[0]);
// positions for the SHARED objects: incl. en-passant captures available (one and two capturers, with a check to
// resolve), a position in check, Chess960 castling
static const char *shared_fens[] = {
    "rnbqkbnr/pppppppp/8/8/8/8/PPPPPPPP/RNBQKBNR w KQkq - 0 1",
    "r3k2r/p1ppqpb1/bn2pnp1/3PN3/1p2P3/2N2Q1p/PPPBBPPP/R3K2R w KQkq - 0 1",
    "rnbqkbnr/ppp1pppp/8/8/3pP3/8/PPPP1PPP/RNBQKBNR b KQkq e3 0 3",
    "4k3/8/8/2PpP3/8/8/8/4K3 w - d6 0 2",
    "8/8/8/8/k2Pp2Q/8/8/3K4 b - d3 0 1",
    "rnbq1k1r/pp1Pbppp/2p5/8/2B5/8/PPP1NnPP/RNBQK2R w KQ - 1 8",
    "4k3/8/8/8/8/8/4r3/R3K2R w KQ - 0 1",
};
static const int NSF = sizeof(shared_fens) / sizeof(shared_fens[0]);
// every third shared object is not just loaded but PLAYED into: a repetition with a long clock and a history
static void load_shared(Position &p, int i) {
    p.set_fen(shared_fens[i % NSF]);
    if (i % 3 == 2 && i % NSF == 0) {
        static const char *cyc[] = {"g1f3", "g8f6", "f3g1", "f6g8"};
        for (int k = 0; k < 8 + 4 * (i % 5); ++k) p.makemove(std::string(cyc[k % 4]));
    }
}

static std::uint64_t mix(std::uint64_t h, std::uint64_t v) {
    h ^= v + 0x9e3779b97f4a7c15ULL + (h << 6) + (h >> 2);
    return h;
}

// one deterministic unit of work on an own Position; returns a digest of everything observed
static std::uint64_t own_work(int k, std::uint64_t seed) {
    std::uint64_t h = seed;
    const bool dfrc = k % NF >= 5;
    Position pos(fens[k % NF], dfrc);
    Position copy = pos;  // copying
    for (int step = 0; step < 12; ++step) {
        const auto moves = pos.legal_moves();
        h = mix(h, moves.size());
        h = mix(h, pos.hash());
        h = mix(h, pos.squares_attacked(Side::White).value());
        h = mix(h, pos.pinned(Side::Black).value());
        for (const auto &m : moves) h = mix(h, pos.predict_hash(m));
        if (moves.empty()) break;
        seed = seed * 6364136223846793005ULL + 1442695040888963407ULL;
        pos.makemove(moves[(seed >> 33) % moves.size()]);
        h = mix(h, std::hash<std::string>{}(pos.get_fen(dfrc)));
    }
    h = mix(h, pos.perft(2));
    while (!pos.history().empty()) pos.undomove();
    if (k % 8 == 3) {
        // a very long game on an own object (well beyond 256 and 1024 stacked moves), then unwound
        Position g(fens[0]);
        static const char *cyc[] = {"g1f3", "g8f6", "f3g1", "f6g8"};
        const int plies = 300 + (k % 5) * 260;
        for (int i = 0; i < plies; ++i) g.makemove(std::string(cyc[i % 4]));
        h = mix(h, g.hash());
        h = mix(h, g.halfmoves());
        h = mix(h, g.threefold());
        while (!g.history().empty()) g.undomove();
        h = mix(h, g.hash());
    }
    h = mix(h, pos.hash() == copy.hash());
    copy.set_fen(fens[(k + 3) % NF], (k + 3) % NF >= 5);
    h = mix(h, copy.perft(2));
    return h;
}

// const queries on the shared Position
static std::uint64_t shared_work(const Position &pos) {
    std::uint64_t h = 0;
    h = mix(h, pos.legal_moves().size());
    h = mix(h, pos.checkers().value());
    h = mix(h, pos.pinned().value());
    h = mix(h, pos.king_allowed().value());
    h = mix(h, pos.squares_attacked(Side::Black).value());
    h = mix(h, pos.calculate_hash());
    h = mix(h, std::hash<std::string>{}(pos.get_fen()));
    h = mix(h, pos.is_terminal());
    h = mix(h, pos.threefold());
    h = mix(h, pos.is_draw());
    h = mix(h, pos.count_moves());
    for (const auto &m : pos.legal_moves()) h = mix(h, pos.is_legal(m) + std::hash<std::string>{}(pos.move_string(m)));
    return h;
}

int main(int argc, char **argv) {
    const int nthreads = argc > 1 ? std::atoi(argv[1]) : 8;
    const int iters = argc > 2 ? std::atoi(argv[2]) : 50;
    const std::uint64_t seed = argc > 3 ? std::strtoull(argv[3], nullptr, 10) : 1;
    // The workers run FIRST and only record what they saw; the single-threaded reference is computed afterwards (after
    // the joins).  Nothing of the library has been touched by any thread before the workers start — no warm-up by the
    // main thread, no happens-before edge from a reference run — so lazily initialised tables, lazily filled caches inside
    // shared Positions and process-wide statistics are written for the first time by concurrent threads.
    const std::size_t total = static_cast<std::size_t>(nthreads) * static_cast<std::size_t>(iters);
    std::vector<std::uint64_t> got_own(total), got_shared(total);
    std::vector<Position> shared_pool(static_cast<std::size_t>(iters));     // default-constructed: no library code has run
    std::vector<std::thread> th;
    std::atomic<int> ready{0};
    for (int t = 0; t < nthreads; ++t) {
        th.emplace_back([&, t] {
            // each worker loads its share of the shared objects (own objects at this point), then all start together
            for (int i = t; i < iters; i += nthreads) load_shared(shared_pool[static_cast<std::size_t>(i)], i);
            ready++;
            while (ready.load() < nthreads) {}
            for (int i = 0; i < iters; ++i) {
                got_own[static_cast<std::size_t>(t * iters + i)] = own_work(t * 31 + i, seed + static_cast<std::uint64_t>(t));
                got_shared[static_cast<std::size_t>(t * iters + i)] = shared_work(shared_pool[static_cast<std::size_t>(i)]);
            }
        });
    }
    for (auto &x : th) x.join();
    int mismatches = 0;
    for (int t = 0; t < nthreads; ++t)
        for (int i = 0; i < iters; ++i) {
            if (got_own[static_cast<std::size_t>(t * iters + i)] != own_work(t * 31 + i, seed + static_cast<std::uint64_t>(t))) mismatches++;
            Position reference;
            load_shared(reference, i);
            if (got_shared[static_cast<std::size_t>(t * iters + i)] != shared_work(reference)) mismatches++;
        }
    std::printf("threads=%d iterations=%d evaluations=%d mismatching_results=%d\n", nthreads, iters, 2 * nthreads * iters, mismatches);
    return mismatches ? 1 : 0;
}
