def run(*a, **k):
    return {}, []
