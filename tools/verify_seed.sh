#!/bin/bash
# verify_seed.sh <name> <patch> <demo.cpp> <outdir> [demo-build-flags]
# Confirms, in a scratch worktree of /repo outside /repo and /verif, that the seeded change compiles, passes the
# existing 51 tests, and that the demonstration passes without the change and fails with it.
name=$1; patch=$2; demo=$3; out=$4; flags=${5:-"g++ -std=c++20 -O1 -DNDEBUG"}
wt=/var/tmp/lcv.seed.$name
rm -rf $wt; git -C /repo worktree add -q --detach $wt HEAD || exit 2
cd $wt
res_orig=0; res_mut=0; tests="?"
$flags -I src $demo src/*.cpp -o demo_orig -lpthread >/dev/null 2>&1 && (timeout 600 ./demo_orig >/dev/null 2>&1; echo $? > rc_orig) || echo build-failed > rc_orig
if git apply $patch 2>/dev/null; then
  cmake -G Ninja -B _b -DCMAKE_BUILD_TYPE=RelWithDebInfo >/dev/null 2>&1 && cmake --build _b --target libchess_test >/dev/null 2>&1 && tests=$(./_b/libchess_test 2>&1 | tail -2 | tr '\n' ' ') || tests="BUILD FAILED"
  $flags -I src $demo src/*.cpp -o demo_mut -lpthread >/dev/null 2>&1 && (timeout 600 ./demo_mut >/dev/null 2>&1; echo $? > rc_mut) || echo build-failed > rc_mut
else
  tests="PATCH DOES NOT APPLY"; echo na > rc_mut
fi
mkdir -p $out
printf '{"name": "%s", "tests_with_change": "%s", "demo_exit_without_change": "%s", "demo_exit_with_change": "%s", "demo_build": "%s"}\n' "$name" "$tests" "$(cat rc_orig)" "$(cat rc_mut)" "$flags" > $out/verify.json
cd /; git -C /repo worktree remove --force $wt
